"""C14 What is written into a collection archive is what is read back.

Write/read vs dict model: FsOutput (write_pages / write_expanded_page / write_redirects / image files)
-> close -> zip_dir -> wiki.make_wiki(zip).wiki; every read is compared with the model of what was
written.
"""
import json
import os
import random
import shutil

from ..child import exc_detail, exc_key, h64
from ..gen import wikitext as W

ID = "C14"
LEVEL = "exploration"
SEP = "\n\x0c --page-- "
RULE = ("archives of 1-12 titles in any namespace (canonical form as the API returns them), 1-4 revisions per title "
        "written in shuffled order and random batching through write_pages and write_expanded_page, texts from the "
        "markup alphabet incl. '--page--'-like lines, empty text, CR/LF variants, Unicode; redirects; 0-6 images under "
        "canonical titles (plus close pairs of distinct titles over letters digits space - . _ ~); every site "
        "language; reads by revision id, by title, by equivalent spellings (namespace aliases/canonical names, case, "
        "underscores), through redirects, and image paths by equivalent spellings; excluded: texts containing the "
        "record separator, titles with %XX; non-trivial = archive holds >=2 titles; distinct = distinct write histories")
ASSUMPTIONS = [
    "texts do not start with a redirect directive (a stored redirect page is resolved on read by design)",
    "equivalent spellings are those of C12's reference normaliser; titles are written in canonical form",
]
REQUIRED = {"archives": 100, "reads_by_revid": 500, "reads_by_title": 300, "reads_by_spelling": 300, "redirect_reads": 50,
            "image_reads": 100, "multi_revision_titles": 50, "cr_texts": 20, "distinct_title_pairs": 30,
            "pages_without_revid": 50}
LEVEL_TEXT = ("Exploration: 3e3 (quick) / 2e5 (thorough) generated write histories through the real FsOutput, zip and "
              "NuWiki reader; a dict model of what was written is the oracle for every read (revision id, title, "
              "spelling variants, redirects, image paths); titles include compatibility characters next to their "
              "look-alikes and one image name stored in several formats.")
LEVEL_NOTE = "Trusts the model (a dict) and the spelling generator shared with C12."
TECHNIQUE = "write/read runtime monitor against a dict model over generated write histories (real FsOutput -> zip -> NuWiki)"

TEXT_ATOMS = ["plain text", "\n --page-- {\"title\": \"X\"}\n", " --page-- ", "\n\x0c", "\x0c --page--", "--page--", "\r\n", "\r", "\n",
              "line\r\nline", "tail\r", "ünï", "日本", "\U0001f600", "\t", "{{t|x}}", "[[L]]", "== h ==", "\n\n", " ", "\x0b", " ",
              "{\"title\": 1}", "\\n", "%20", "&amp;"]


def gen_text(rnd):
    k = rnd.random()
    if k < 0.08:
        return ""
    if k < 0.5:
        t = "".join(rnd.choice(TEXT_ATOMS) for _ in range(rnd.randint(1, 8)))
    else:
        t = W.soup(rnd, rnd.randint(1, 25))
    t = t.replace(SEP, "\n --page-- ").replace("\ud800", "")
    t = t.encode("utf-8", "ignore").decode("utf-8")
    if t.lstrip().upper().startswith("#"):
        t = "x" + t
    if t.startswith(SEP[1:]):
        # together with the newline that ends the record header this *is* the record separator
        t = "x" + t
    return t


def plan(tier, seed):
    n = 16
    per = 120 if tier == "quick" else 6000
    return [{"shard": i, "count": per, "seed": seed} for i in range(n)]


def spellings(ref, si, ns, base, rnd, k=4):
    """equivalent spellings of the canonical title (ns, base)"""
    from .C12 import case_variants, sep_variants
    v = si["namespaces"][str(ns)]
    names = {v["*"]}
    if v.get("canonical") is not None:
        names.add(v["canonical"])
    for a in si.get("namespacealiases", []):
        if a["id"] == ns:
            names.add(a["*"])
    names = [x for x in names if x == "" or ref.lookup(x) == {ns}]
    out = []
    for _ in range(k):
        nn = rnd.choice(names)
        if nn:
            nn = rnd.choice(sep_variants(rnd.choice(case_variants(nn, rnd)), rnd))
        b = rnd.choice(sep_variants(base, rnd))
        if ref.cap and b[:1].lower() != b[:1] and len(b[:1].lower()) == 1 and b[:1].lower().upper() == b[:1]:
            if rnd.random() < 0.5:
                b = b[:1].lower() + b[1:]
        t = (nn + ":" + b) if nn else b
        t = rnd.choice(("", " ", "_")) + t + rnd.choice(("", " ", "_"))
        out.append(t)
    return out


def one(R, rnd, workdir, idx):
    import contextlib
    import io
    from mwlib.apps.buildzip import zip_dir
    from mwlib.core import metabook, wiki
    from mwlib.network import fetch
    from mwlib.network.siteinfo import get_siteinfo
    from .C12 import Ref
    lang = rnd.choice(W.LANGS)
    si = get_siteinfo(lang)
    ref = Ref(si)
    nslist = [n for n in sorted(ref.local) if n >= 0 and n != 6]
    bases = ["Alpha", "Beta gamma", "Ärger", "Écôle x", "日本語", "Foo (bar)", "A/b", "X-y.z", "Q~r", "Under score", "İz", "1st", "C++",
             "Tab le", "Ab:cd", "Star Trek: Voyager", "2001: A Space Odyssey", "Re: mail", "Star Trek:Voyager", "A : b",
             # titles with compatibility characters next to their plain look-alikes (titles are NFC, not NFKC)
             "Km\u00b2", "Km2", "H\u2082O", "H2O", "X \u00bd", "X 1\u20442", "Of\ufb01ce", "Office", "No \u2160", "No I", "A\uff21"]
    # ---- model --------------------------------------------------------------------------------
    pages = {}            # canonical title -> {revid: text}
    meta = {}             # canonical title -> (ns, base)
    revid = rnd.randint(1, 1000)
    for _ in range(rnd.randint(1, 12)):
        ns = rnd.choice([0, 0, 0] + nslist)
        base = rnd.choice(bases) + (" %d" % rnd.randint(1, 99) if rnd.random() < 0.6 else "")
        exp = ref.split((ref.local[ns] + ":" if ref.local[ns] else "") + base, 0)
        if exp is None or exp[0] != ns:
            continue
        title = exp[2]
        if title in pages:
            continue
        revs = {}
        if rnd.random() < 0.25:
            # stored without a revision id (as image description pages are)
            revs[None] = gen_text(rnd)
        else:
            for _ in range(rnd.choice((1, 1, 2, 3, 4))):
                revid += rnd.randint(1, 50)
                revs[revid] = gen_text(rnd)
        pages[title] = revs
        meta[title] = (ns, exp[1])
    if not pages:
        return
    redirects = {}
    for _ in range(rnd.randint(0, 3)):
        src = ref.split("Redir " + rnd.choice(bases) + " %d" % rnd.randint(1, 99), 0)[2]
        if src not in pages:
            redirects[src] = rnd.choice(sorted(pages))
    images = {}
    filens = ref.local[6]
    names = ["Pic.png", "Photo one.jpg", "Diagram.svg", "Ünï.png", "A-b.c_d~e.png", "Map 2.PNG", "x.gif", "A+B.svg", "C++ logo.png",
             "50% off.png", "Tom & Jerry.jpg", "O'Neil.png", "Q=1.png"]
    for nme in rnd.sample(names, rnd.randint(0, 4)):
        images[filens + ":" + nme] = os.urandom(rnd.randint(1, 64))
    if rnd.random() < 0.35:
        # one name in several formats, and compatibility characters next to their look-alikes
        stem = rnd.choice(("Logo", "Karte A", "Km\u00b2", "Km2", "Sign"))
        for ext in rnd.sample(("svg", "png", "gif", "tif", "tiff", "jpg", "PNG"), rnd.randint(2, 4)):
            images[filens + ":" + stem + "." + ext] = os.urandom(8) + ext.encode()
        if rnd.random() < 0.5:
            for nme in ("Km\u00b2.png", "Km2.png"):
                images.setdefault(filens + ":" + nme, os.urandom(8) + nme.encode("utf-8"))
    pairs = []
    if rnd.random() < 0.5:
        # distinct titles over [letters digits space - . _ ~] must be kept apart
        alpha = "abAB12 -._~"
        a = "".join(rnd.choice(alpha) for _ in range(rnd.randint(2, 6))).strip(" _") or "a"
        b = list(a)
        i = rnd.randrange(len(b))
        b[i] = rnd.choice([c for c in alpha if c != b[i]])
        b = "".join(b).strip(" _") or "b"
        ta = ref.split(filens + ":" + a + ".png", 0)
        tb = ref.split(filens + ":" + b + ".png", 0)
        if ta and tb and ta[2] != tb[2] and ta[2].replace("_", " ") != tb[2].replace("_", " "):
            for t in (ta[2], tb[2]):
                images.setdefault(t, os.urandom(16) + t.encode("utf-8"))
            pairs.append((ta[2], tb[2]))
    # ---- write --------------------------------------------------------------------------------
    d = os.path.join(workdir, "a%d" % idx)
    events = [(t, r, x) for t, revs in pages.items() for r, x in revs.items()]
    rnd.shuffle(events)
    history = []
    fsout = fetch.FsOutput(d)
    try:
        fsout.write_siteinfo(si)
        fsout.dump_json(metabook=metabook.Collection())
        fsout.nfo = {"format": "nuwiki", "base_url": "http://w.test/w/", "script_extension": ".php"}
        i = 0
        pageids = {}
        while i < len(events):
            k = rnd.randint(1, 4)
            batch = events[i:i + k]
            i += k
            if len(batch) == 1 and rnd.random() < 0.25 and batch[0][1] is not None:
                t, r, x = batch[0]
                fsout.write_expanded_page(t, meta[t][0], x, revid=r)
                history.append(["expanded", t, r])
                continue
            data = {"pages": {}}
            for j, (t, r, x) in enumerate(batch):
                # (page ids: one per title - a hash of the title can collide and merge two pages in the harness)
                p = data["pages"].setdefault(str(pageids.setdefault(t, len(pageids) + 1)), {"title": t, "ns": meta[t][0], "revisions": []})
                p["revisions"].append({"revid": r, "*": x} if r is not None else {"*": x})
            fsout.write_pages(data)
            history.append(["pages", [[t, r] for t, r, _ in batch]])
        for src, dst in sorted(redirects.items()):
            if rnd.random() < 0.5:
                # the fetcher stores the redirecting page itself as well
                revid += rnd.randint(1, 50)
                fsout.write_pages({"pages": {"900%d" % revid: {"title": src, "ns": 0, "revisions": [
                    {"revid": revid, "*": "#REDIRECT [[%s]]" % dst}]}}})
                history.append(["redirect-page", src, revid])
        fsout.write_redirects(redirects)
        for t, data in images.items():
            with open(fsout.get_imagepath(t), "wb") as f:
                f.write(data)
        fsout.write_authors()
        fsout.write_html()
        fsout.imageinfo.close()
        fsout.close()
        zpath = d + ".zip"
        zip_dir(d, zpath)
        with contextlib.redirect_stdout(io.StringIO()), contextlib.redirect_stderr(io.StringIO()):
            env = wiki.make_wiki(zpath)
        w = env.wiki
    except Exception as e:
        R.violation("raises:" + exc_key(e), "writing/opening the archive raised %s: %s" % (type(e).__name__, str(e)[:100]),
                    {"lang": lang, "history": history}, exc_detail(e))
        shutil.rmtree(d, ignore_errors=True)
        return
    case = {"lang": lang, "history": history, "titles": sorted(pages), "redirects": redirects, "images": sorted(images)}
    R.breadcrumb(json.dumps(case))
    R.count("archives")
    R.case(h64(json.dumps(history), lang), len(pages) >= 2, sample=case if len(pages) <= 3 else None)
    if any(len(v) > 1 for v in pages.values()):
        R.count("multi_revision_titles")
    if any("\r" in x for revs in pages.values() for x in revs.values()):
        R.count("cr_texts")

    def text_of(p):
        return None if p is None else p.rawtext

    try:
        # ---- reads ----------------------------------------------------------------------------
        for t, revs in pages.items():
            for r, x in revs.items():
                if r is None:
                    R.count("pages_without_revid")
                    continue
                got = text_of(w.nuwiki.get_page(t, revision=r))
                R.count("reads_by_revid")
                if got != x:
                    R.violation("read-by-revid:" + kind(x, got), "get_page(%r, revision=%r) returned %r, written %r" % (t, r, short(got), short(x)), case)
            newest = revs[max(revs)] if None not in revs else revs[None]
            got = text_of(w.nuwiki.get_page(t))
            R.count("reads_by_title")
            if got != newest:
                k = "older-revision" if got in revs.values() and len(revs) > 1 else kind(newest, got)
                R.violation("read-by-title:" + k, "get_page(%r) returned %r, newest stored revision %r has %r" % (
                    t, short(got), max(revs, key=lambda v: v or 0), short(newest)), case)
            ns, base = meta[t]
            for sp in spellings(ref, si, ns, base, rnd):
                exp = ref.split(sp, 0)
                if exp is None or exp[2] != t:
                    continue
                got = text_of(w.normalize_and_get_page(sp, 0))
                R.count("reads_by_spelling")
                if got != newest and got not in revs.values():
                    R.violation("read-by-spelling:" + kind(newest, got), "normalize_and_get_page(%r) returned %r for page %r" % (sp, short(got), t), case)
        for src, dst in redirects.items():
            newest = pages[dst][max(pages[dst], key=lambda v: v or 0)]
            got = text_of(w.nuwiki.get_page(src))
            R.count("redirect_reads")
            if got != newest and got not in pages[dst].values():
                R.violation("redirect-not-resolved", "get_page(%r) returned %r; redirect recorded to %r" % (src, short(got), dst), case)
        for t, data in images.items():
            base = t.split(":", 1)[1]
            for sp in [t] + spellings(ref, si, 6, ref.capitalise(base), rnd, 3):
                exp = ref.split(sp, 6)
                if exp is None or exp[2] != t:
                    continue
                p = w.get_disk_path(sp)
                R.count("image_reads")
                if p is None:
                    R.violation("image-not-found", "get_disk_path(%r) found nothing for stored image %r" % (sp, t), case)
                    continue
                with open(p, "rb") as f:
                    got = f.read()
                if got != data:
                    R.violation("image-wrong-bytes", "get_disk_path(%r) returned a file with other bytes than stored under %r" % (sp, t), case)
        for ta, tb in pairs:
            pa, pb = w.get_disk_path(ta), w.get_disk_path(tb)
            R.count("distinct_title_pairs")
            if pa is None or pb is None:
                R.violation("image-not-found", "distinct titles %r / %r: %r %r" % (ta, tb, pa, pb), case)
            elif os.path.realpath(pa) == os.path.realpath(pb):
                R.violation("distinct-titles-share-a-file", "distinct image titles %r and %r map to one file" % (ta, tb), case)
    except Exception as e:
        R.violation("read-raises:" + exc_key(e), "reading raised %s: %s" % (type(e).__name__, str(e)[:100]), case, exc_detail(e))
    finally:
        try:
            w.clear()
        except Exception:
            pass
        shutil.rmtree(d, ignore_errors=True)
        with contextlib.suppress(OSError):
            os.unlink(d + ".zip")


def short(x):
    return None if x is None else (x if len(x) < 60 else x[:57] + "...")


def kind(want, got):
    if got is None:
        return "missing"
    if want.replace("\r\n", "\n").replace("\r", "\n") == got.replace("\r\n", "\n").replace("\r", "\n") or want.replace("\r", "") == got.replace("\r", ""):
        return "newline-translation"
    if got.startswith(want) or want.startswith(got):
        return "truncated-or-extended"
    return "other-text"


def run_shard(desc, R):
    import logging
    import tempfile
    logging.disable(logging.CRITICAL)
    rnd = random.Random("C14:%s:%s" % (desc["seed"], desc["shard"]))
    workdir = os.path.join(os.environ.get("VERIF_SCRATCH_DIR", "/var/tmp"), "c14-%d" % os.getpid())
    os.makedirs(workdir, exist_ok=True)
    tempfile.tempdir = workdir
    try:
        for i in range(desc["count"]):
            one(R, rnd, workdir, i)
    finally:
        shutil.rmtree(workdir, ignore_errors=True)


def replay(case):
    print("replay re-runs the generator; the witness file holds the write history and the failing read")
    return []
