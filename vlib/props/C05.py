"""C05 - see DESIGN.md section 4; shared workload in treecommon.py."""
from . import treecommon

ID = "C05"
LEVEL = "exploration"
CASE_CPU = treecommon.CASE_CPU


def plan(tier, seed):
    return treecommon.plan(ID, tier, seed)


def run_shard(desc, R):
    return treecommon.run_shard(ID, desc, R)


def replay(case):
    return treecommon.replay(ID, case)

RULE = ("trees obtained by parsing trigger documents (class/id/style values that switch passes on, wide/nested/"
        "single-column/long tables, named references, malformed HTML lists ...), grammar documents of C02, structured "
        "token soup and mutated repository snippets, in every site language; the own validator runs after "
        "build_advanced_tree and after every one of the cleaner passes applied one at a time in cleaner_methods "
        "order, the writers' contract after the last; non-trivial = tree has >=4 node classes; distinct = distinct (text, language)")
ASSUMPTIONS = [
    "the invariant is evaluated at quiescent points only (after a pass returned), never inside a pass's recursion",
    "nesting deeper than 40 (estimated on the source) is outside the input space",
]
REQUIRED = {"validations": 20000, "contract_checks": 500, "pass_fired": 2000}
LEVEL_TEXT = ("Exploration: an independent iterative validator (every node once, parent links, root, leaf typing) is "
              "evaluated as an invariant hook after build_advanced_tree and after each of the 57 pass applications on "
              "7e3 (quick) / 4e5 (thorough) generated trees; the container-typing contract after the full sequence.")
LEVEL_NOTE = "Only structure is checked (not attributes); only tree shapes the generators reach."
TECHNIQUE = "invariant-at-a-hook monitor (own tree validator after every cleaner pass) over fuzzed, trigger and grammar documents"
