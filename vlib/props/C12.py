"""C12 Title normalization is canonical and idempotent.

Algebraic laws checked on the real NsHandler.splitname against a reference written from the
statement (vlib: ref_split below), over generated spellings for every bundled site configuration.
"""
import copy
import json
import random
import re

from ..child import h64

ID = "C12"
LEVEL = "exploration"
LANGS = ["de", "en", "es", "fr", "it", "ja", "nl", "no", "pl", "pt", "simple", "sv"]
MARKS = "‎‏"
UNI_WS = ["\u3000", "\u00a0", "\u2002", "\u2003", "\u2009", "\u2028", "\u205f", "\u1680", "\t", "\n", "\x0b", "\x1f", "\x85"]
RULE = ("for each of the 12 bundled siteinfos (+ a case-sensitive variant of each): every namespace x {local, "
        "canonical, each alias} x letter-case variants x '_'/space/run separators x leading colon x surrounding "
        "whitespace x generated bases (Unicode letters incl. special casing, colons, namespace-like prefixes) x "
        "every default namespace; laws L1 one triple per equivalence class, L2 equals the reference, L3 namespace "
        "id, L4 idempotence (also for titles with bidi marks at the edges and for fuzzed titles); non-trivial = "
        "spelling differs from the canonical name; distinct = distinct (site, title, defaultns)")
ASSUMPTIONS = [
    "letter-case variants of namespace names are those that Python's str.lower() folds back to the same name "
    "(language-specific case rules such as Turkish dotless i are not generated)",
    "bidi marks at the edges are checked for idempotence and well-formedness, not for equivalence with the "
    "mark-free spelling (the statement does not list them as equivalent spellings)",
]
REQUIRED = {"L1_classes": 200, "L4_idempotence_checks": 2000, "L3_nsid_checks": 2000, "bidi_edge_titles": 100}
LEVEL_TEXT = ("Exploration: 2e5 (quick) / 1e7 (thorough) generated spellings across all bundled site "
              "configurations; each call of the real splitname is judged by four laws, the reference being an "
              "independent 30-line normaliser written from the statement; edge whitespace includes Unicode spaces, words "
              "include compatibility characters; every site is asked for again in other orders and compared with its "
              "file on disk, and a transient I/O error at a site's first load is followed by retries in a fresh process.")
LEVEL_NOTE = "Trusts the reference normaliser and the spelling generator; language-specific case folding is out of scope."
TECHNIQUE = "runtime law monitor (equivalence, reference agreement, idempotence) on the real function over generated spellings"

BASE_WORDS = ["foo", "bar baz", "ärger", "élan", "ßtraße", "ǆungla", "ŉ x", "istanbul", "İzmir", "日本語", "한글", "שלום",
              "école", "x:y", "foo:bar baz", "a", "A", "9lives", "(disambiguation)", "foo (bar)", "c++",
              "at&t", "100%", "o'neil", "ǉ", "ω mega", "straße:weg", "star trek: voyager", "2001: a space odyssey", "re : mail",
              # compatibility characters: titles are not NFKC-folded
              "km\u00b2", "h\u2082o", "x \u00bd", "of\ufb01ce", "no \u2160", "\uff21bc", "e\u0301cole", "\u1e9b\u0323"]


def _strip(s):
    while True:
        t = s.strip().strip(MARKS)
        if t == s:
            return s
        s = t


class Ref:
    """the statement made executable"""

    def __init__(self, si):
        self.si = si
        self.cap = si["general"].get("case") == "first-letter"
        self.local = {int(k): v["*"] for k, v in si["namespaces"].items()}
        names = {}
        for k, v in si["namespaces"].items():
            names.setdefault(v["*"].lower(), set()).add(v["id"])
            if v.get("canonical") is not None:
                names.setdefault(v["canonical"].lower(), set()).add(v["id"])
        for a in si.get("namespacealiases", []):
            names.setdefault(a["*"].lower(), set()).add(a["id"])
        self.names = names

    def lookup(self, name):
        ids = self.names.get(name.strip().lower())
        if not ids:
            return None
        return ids

    def capitalise(self, s):
        if self.cap and s:
            return s[0].upper() + s[1:]
        return s

    def split(self, title, defaultns):
        t = re.sub(" +", " ", title.replace("_", " ").strip())
        if t.startswith(":"):
            t = t[1:].strip()
            defaultns = 0
        ns, partial = defaultns, t
        if ":" in t:
            pre, rest = t.split(":", 1)
            ids = self.lookup(pre)
            if ids:
                if len(ids) > 1:
                    return None      # the site data is ambiguous for this name
                ns, partial = next(iter(ids)), rest.strip()
        partial = self.capitalise(partial)
        loc = self.local[ns]
        return (ns, partial, (loc + ":" if loc else "") + partial)


def case_variants(name, rnd):
    out = {name, name.lower(), name.upper(), name.title(), name.swapcase()}
    out.add("".join(c.upper() if rnd.random() < 0.5 else c.lower() for c in name))
    return [v for v in out if v.lower() == name.lower()]


def sep_variants(s, rnd):
    out = {s, s.replace(" ", "_")}
    out.add(re.sub(" ", lambda m: rnd.choice((" ", "_", "  ", "__", " _", "_ ")), s))
    return list(out)


def plan(tier, seed):
    n = 16
    per = 40 if tier == "quick" else 2500
    return [{"shard": i, "n": n, "classes": per, "seed": seed} for i in range(n)]


def sites():
    from mwlib.network import siteinfo
    out = []
    for lang in LANGS:
        si = copy.deepcopy(siteinfo.get_siteinfo(lang))
        out.append((lang, si))
        si2 = copy.deepcopy(si)
        si2["general"]["case"] = "case-sensitive"
        out.append((lang + "/case-sensitive", si2))
    return out


def run_shard(desc, R):
    from mwlib.core.nshandling import NsHandler
    rnd = random.Random("C12:%s:%s" % (desc["seed"], desc["shard"]))
    for lang, si in sites():
        ref = Ref(si)
        h = NsHandler(si)
        nslist = sorted(ref.local)
        defaults = [n for n in nslist if n >= 0]

        def call(title, dns):
            try:
                return h.splitname(title, defaultns=dns)
            except Exception as e:
                R.violation("raises:%s" % type(e).__name__, "splitname(%r, %r) raised %r" % (title, dns, e),
                            {"site": lang, "title": title, "defaultns": dns})
                return None

        def idem(res, title, dns, tag):
            """L4 on a result triple"""
            ns, partial, full = res
            R.count("L4_idempotence_checks")
            case = {"site": lang, "title": title, "defaultns": dns}
            if partial != partial.strip() or any(partial.startswith(m) or partial.endswith(m) for m in MARKS):
                R.violation("L4:edge-whitespace-or-mark-in-canonical-name:" + tag,
                            "canonical partial name %r has whitespace/marks at its edges" % (partial,), case)
                return
            again = call(full, 0)
            if again is not None and tuple(again) != tuple(res):
                R.violation("L4:not-idempotent:" + tag, "splitname(%r)=%r but splitname(%r, 0)=%r" % (
                    title, res, full, again), case)
                return
            if ns != 0:
                for d in rnd.sample(defaults, min(3, len(defaults))):
                    again = call(full, d)
                    if again is not None and tuple(again) != tuple(res):
                        R.violation("L4:not-idempotent-under-default-ns:" + tag,
                                    "splitname(%r, %r)=%r, expected %r" % (full, d, again, res), case)
                        return

        for _ in range(desc["classes"]):
            # one equivalence class: (namespace, base)
            ns = rnd.choice(nslist)
            base = rnd.choice(BASE_WORDS)
            if rnd.random() < 0.5:
                base = base + " " + rnd.choice(BASE_WORDS)
            if rnd.random() < 0.1:
                # namespace-like prefix inside the base
                base = ref.local[rnd.choice(nslist)] + ":" + base if ns != 0 else base
            # spellings of the namespace
            v = si["namespaces"][str(ns)]
            nsnames = {v["*"]}
            if v.get("canonical") is not None:
                nsnames.add(v["canonical"])
            for a in si.get("namespacealiases", []):
                if a["id"] == ns:
                    nsnames.add(a["*"])
            nsnames = [x for x in nsnames if x == "" or (ref.lookup(x) == {ns})]
            if ns != 0 and not nsnames:
                R.skip()
                continue
            spellings = []
            for nn in nsnames:
                for cv in (case_variants(nn, rnd) if nn else [""]):
                    for nv in sep_variants(cv, rnd):
                        for bv in sep_variants(base, rnd):
                            b2 = [bv]
                            if ref.cap and bv[:1].lower() != bv[:1] and len(bv[:1].lower()) == 1 \
                                    and bv[:1].lower().upper() == bv[:1].upper():
                                b2.append(bv[:1].lower() + bv[1:])
                            for b in b2:
                                t = (nv + ":" + b) if nn else b
                                spellings.append(t)
            rnd.shuffle(spellings)
            spellings = spellings[:40]
            dns = rnd.choice(defaults)
            if ns > 0 and rnd.random() < 0.5:
                dns = ns     # then the bare base (no namespace prefix) is a spelling of the same page
            expected = None
            results = {}
            R.count("L1_classes")
            for t in spellings:
                forms = [t, " " + t + "  ", "_" + t, ":" + t, " :" + t + "_"]
                # surrounding whitespace is not only the ASCII blank
                u1, u2 = rnd.choice(UNI_WS), rnd.choice(UNI_WS)
                forms += [u1 + t, t + u2, u1 + " " + t + u2, ":" + u1 + t]
                if ":" in t and ns != 0:
                    a_, b_ = t.split(":", 1)
                    forms.append(a_ + u1 + ":" + u2 + b_)
                R.count("unicode_whitespace_spellings", 4)
                if ns == 0 and dns != 0:
                    forms = [":" + t, " :" + t + "_", ": " + t]
                if ns == dns and ns != 0 and ":" in t:
                    bare = t.split(":", 1)[1]
                    # only when the base's own prefix is neither a namespace nor a leading colon
                    if not bare.startswith(":") and (":" not in bare or not ref.lookup(
                            re.sub(" +", " ", bare.split(":", 1)[0].replace("_", " ")))):
                        forms = forms + [bare, " " + bare + "_"]
                        R.count("bare_spellings_under_default_ns", 2)
                for title in forms:
                    exp = ref.split(title, dns)
                    if exp is None:
                        R.skip()
                        continue
                    res = call(title, dns)
                    if res is None:
                        continue
                    res = tuple(res)
                    results.setdefault(res, title)
                    nontrivial = title != exp[2]
                    R.case(h64(lang, title, dns), nontrivial,
                           sample={"site": lang, "title": title, "defaultns": dns, "result": list(res)})
                    case = {"site": lang, "title": title, "defaultns": dns}
                    R.count("L3_nsid_checks")
                    if res[0] != exp[0]:
                        R.violation("L3:wrong-namespace-id", "splitname(%r, %r) -> ns %r, site defines %r" % (
                            title, dns, res[0], exp[0]), case)
                    elif res != exp:
                        kind = "capitalisation" if res[1].lower() == exp[1].lower() else (
                            "namespace-name" if res[1] == exp[1] else "partial")
                        R.violation("L2:differs-from-reference:" + kind,
                                    "splitname(%r, %r) = %r, statement gives %r" % (title, dns, res, exp), case)
                    idem(res, title, dns, "plain")
            if len(results) > 1:
                items = list(results.items())[:3]
                R.violation("L1:spellings-map-to-different-names",
                            "equivalent spellings give different triples: %r" % (items,),
                            {"site": lang, "title": items[0][1], "defaultns": dns, "other": items[1][1]})
            # bidi marks at the edges + fuzz: idempotence and well-formedness only
            for _ in range(6):
                t = rnd.choice(spellings) if spellings else base
                k = rnd.random()
                if k < 0.5:
                    pre = "".join(rnd.choice(MARKS + " ") for _ in range(rnd.randint(1, 3)))
                    post = "".join(rnd.choice(MARKS + " _") for _ in range(rnd.randint(0, 3)))
                    title = pre + t + post
                    if ":" in t and rnd.random() < 0.5:
                        a, b = t.split(":", 1)
                        title = a + ":" + rnd.choice(MARKS) + rnd.choice(("", " ")) + b + post
                    R.count("bidi_edge_titles")
                    tag = "bidi-edge"
                else:
                    chars = list(t)
                    for _ in range(rnd.randint(1, 3)):
                        chars.insert(rnd.randint(0, len(chars)), rnd.choice(":_ :\t|#[]"))
                    title = "".join(chars)
                    tag = "fuzz"
                    if re.match(r"^[\s_‎‏]*:[\s_‎‏]*:", title):
                        # a doubled leading colon is not a title spelling the statement lists
                        R.skip()
                        continue
                res = call(title, dns)
                if res is not None:
                    R.case(h64(lang, title, dns), True)
                    idem(tuple(res), title, dns, tag)
    site_stability(R, rnd)
    if desc["shard"] < 3:
        error_then_retry(R, rnd)


def error_then_retry(R, rnd):
    """a transient I/O error while a site's configuration is first read must not stick: asked again, the site is
    either read properly or the error is raised again - never another site's configuration"""
    import subprocess
    import sys
    code = r'''
import builtins, errno, io, json, pathlib, sys
lang = sys.argv[1]
from mwlib.core import nshandling
from mwlib.network import siteinfo
nshandling.get_nshandler_for_lang("en")          # something else is cached already
state = {"fail": 1}
real_open, real_popen = builtins.open, pathlib.Path.open
def flaky(path):
    if state["fail"] and ("siteinfo-%s.json" % lang) in str(path):
        state["fail"] -= 1
        raise OSError(errno.EMFILE, "Too many open files", str(path))
def o1(file, *a, **k):
    flaky(file); return real_open(file, *a, **k)
def o2(self, *a, **k):
    flaky(self); return real_popen(self, *a, **k)
builtins.open, pathlib.Path.open = o1, o2
io.open = o1
out = []
for attempt in range(3):
    try:
        h = nshandling.get_nshandler_for_lang(lang)
        out.append(["ok", list(h.splitname("user:schmir x", 0))])
    except OSError as e:
        out.append(["oserror", e.errno])
    except Exception as e:
        out.append(["raised", type(e).__name__])
print("RES " + json.dumps(out))
'''
    for lang in rnd.sample([x for x in LANGS if x not in ("en", "simple")], 2):
        pr = subprocess.run([sys.executable, "-c", code, lang], stdout=subprocess.PIPE, stderr=subprocess.PIPE, timeout=300)
        res = None
        for line in pr.stdout.decode().splitlines():
            if line.startswith("RES "):
                res = json.loads(line[4:])
        if res is None:
            R.inconc("error-then-retry probe for %s produced nothing: %s" % (lang, pr.stderr.decode()[-200:]))
            continue
        R.count("error_then_retry_probes")
        with open(str(_site_path(lang)), encoding="utf-8") as f:
            ref = Ref(json.load(f))
        want = list(ref.split("user:schmir x", 0))
        case = {"site": lang, "fault": "EMFILE at the first read of the site configuration", "answers": res}
        for kind, val in res:
            if kind == "ok" and val != want:
                R.violation("L5:site-configuration-after-io-error", "after a transient I/O error at its first load, site %r answers "
                            "splitname('user:schmir x') = %r; its configuration gives %r" % (lang, val, want), case)
                break
        if res[-1][0] != "ok":
            R.seen("error_then_retry_last_answer", "%s:%s" % (res[-1][0], res[-1][1]))


def _site_path(lang):
    from mwlib.network import siteinfo
    return siteinfo._get_path(lang)


def site_stability(R, rnd):
    """every site asked for again, in other orders, in one process: the configuration handed out for a language
    must be that language's bundled file, and the handler built from it must resolve that site's namespaces"""
    import json
    from mwlib.core import nshandling
    from mwlib.network import siteinfo
    order = list(LANGS) + list(reversed(LANGS)) + rnd.sample(LANGS, len(LANGS))
    for lang in order:
        with open(str(siteinfo._get_path(lang)), encoding="utf-8") as f:
            disk = json.load(f)
        got = siteinfo.get_siteinfo(lang)
        R.count("site_stability_checks")
        case = {"site": lang, "order": order}
        if got != disk:
            R.violation("L5:site-configuration-mixed-up", "get_siteinfo(%r) no longer returns the bundled configuration of %r "
                        "(sitename %r)" % (lang, lang, (got or {}).get("general", {}).get("sitename")), case)
            return
        h = nshandling.get_nshandler_for_lang(lang)
        ref = Ref(disk)
        for ns in sorted(ref.local):
            name = ref.local[ns]
            if not name or ref.lookup(name) != {ns}:
                continue
            res = tuple(h.splitname(name + ":x y", defaultns=0))
            exp = ref.split(name + ":x y", 0)
            if exp is not None and res != exp:
                R.violation("L5:site-handler-mixed-up", "handler for %r: splitname(%r) = %r, the site's configuration gives %r" % (
                    lang, name + ":x y", res, exp), case)
                return


def replay(case):
    from ..child import Recorder
    from mwlib.core.nshandling import NsHandler
    si = dict(sites())[case["site"]]
    h = NsHandler(si)
    ref = Ref(si)
    res = tuple(h.splitname(case["title"], defaultns=case["defaultns"]))
    again = tuple(h.splitname(res[2], defaultns=0))
    out = []
    print("splitname(%r, %r) = %r ; reference %r ; splitname(full,0) = %r" % (
        case["title"], case["defaultns"], res, ref.split(case["title"], case["defaultns"]), again))
    if again != res:
        out.append(("L4:not-idempotent", "%r -> %r -> %r" % (case["title"], res, again), None))
    exp = ref.split(case["title"], case["defaultns"])
    if exp is not None and exp != res and not any(m in case["title"] for m in MARKS):
        out.append(("L2:differs-from-reference", "%r vs %r" % (res, exp), None))
    if "other" in case:
        o = tuple(h.splitname(case["other"], defaultns=case["defaultns"]))
        if o != res:
            out.append(("L1:spellings-map-to-different-names", "%r vs %r" % (res, o), None))
    return out
