"""C02 Well-formed markup parses to the structure it denotes, text intact and in order.

The generated AST is the model; the parse tree (parse_string + build_advanced_tree) is the observed
history.  Oracle: the ordered (word, ancestor-chain) lists must be equal.
"""
import json
import random

from ..child import exc_detail, exc_key, h64
from ..gen import grammar
from ..gen import wikitext as W

ID = "C02"
LEVEL = "exploration"
RULE = ("documents from the recursive grammar G (sections 2-5 nested, paragraphs, ul/ol lists nested <=4 in wiki and "
        "HTML spelling, definition lists, tables with header/data cells incl. lists in cells in wiki and HTML "
        "spelling, quote/tag styles, internal links in several namespaces, external links, references, preformatted "
        "lines; whitespace, blank-line and spelling variants), 20-300 unique words, in every bundled site "
        "language; non-trivial = >=3 distinct construct kinds in the denotation; distinct = distinct source texts")
ASSUMPTIONS = [
    "the oracle encodes MediaWiki's rules only for constructs G emits; G's own constraints (list items on one "
    "line, balanced styles within a line, words never looking like markup, no cell content starting with -/+/}) are "
    "part of the documented input space",
    "link targets are compared after the reference title normaliser of C12 (not NsHandler)",
]
REQUIRED = {"documents_compared": 500, "words_compared": 20000, "constructs_table": 50, "constructs_list": 50,
            "constructs_section": 50, "constructs_ref": 50, "constructs_link": 50, "constructs_pre": 20}
LEVEL_TEXT = ("Exploration: thousands (quick) to 1e5+ (thorough) generated well-formed documents are parsed by the real "
              "parser; an observer maps the tree to (word, structural ancestors) and compares it with the denotation "
              "of the generated AST - dropped, duplicated, reordered or mis-attached text is a violation.")
LEVEL_NOTE = "Only the constructs of G, nesting <= 4, <= 300 words; trusts the denotation function and the observer (150 lines)."
TECHNIQUE = "generated-model vs observed-tree monitor (ordered word/ancestor-chain equality) over grammar-generated documents"


def plan(tier, seed):
    n = 16
    per = 600 if tier == "quick" else 20000
    return [{"shard": i, "count": per, "seed": seed} for i in range(n)]


def norm_chain(chain, ref):
    out = []
    styles = []
    for lab in chain:
        if lab[0] == "link":
            r = ref.split(lab[1], 0)
            out.append(("link", r[2] if r else lab[1]))
        elif lab[0] == "row":
            continue          # rows carry no words of their own; the cell label is what matters
        elif lab[0] == "style":
            styles.append(lab)   # bold-in-italic and italic-in-bold denote the same thing
        else:
            out.append(lab)
    return tuple(out) + tuple(sorted(set(styles)))


def compare(den, obs, ref):
    """None or (key, what)"""
    d = [(w, norm_chain(c, ref)) for w, c in den]
    o = [(w, norm_chain(c, ref)) for w, c in obs]
    dw = [w for w, _ in d]
    ow = [w for w, _ in o]
    if dw != ow:
        ds, os_ = set(dw), set(ow)
        missing = [w for w in dw if w not in os_]
        extra = [w for w in ow if w not in ds]
        if missing:
            chain = dict(d)[missing[0]]
            return ("text:dropped:" + kind_of(chain), "visible word %r (denoted under %r) is missing from the tree; "
                    "%d missing in total" % (missing[0], chain, len(missing)))
        if extra:
            return ("text:extra", "tree contains %r which the document does not denote as a word" % (extra[:5],))
        if sorted(dw) != sorted(ow):
            dup = [w for w in set(ow) if ow.count(w) > 1]
            return ("text:duplicated", "words occur more than once in the tree: %r" % (dup[:5],))
        i = next(i for i, (a, b) in enumerate(zip(dw, ow)) if a != b)
        return ("text:reordered:" + kind_of(dict(d)[dw[i]]), "reading order differs at position %d: expected %r, tree has %r" % (i, dw[i], ow[i]))
    for (w, dc), (_, oc) in zip(d, o):
        if dc != oc:
            # which label differs
            dl = [l for l in dc if l not in oc]
            ol = [l for l in oc if l not in dc]
            k = (dl[0][0] if dl else ("unexpected-" + ol[0][0] if ol else "order"))
            return ("chain:" + k, "word %r denoted under %r but found under %r" % (w, dc, oc))
    return None


def kind_of(chain):
    for lab in reversed(chain):
        if lab[0] in ("cell", "item", "dterm", "ddesc", "ref", "pre", "heading", "caption", "link", "extlink", "style"):
            return lab[0]
    return "para"


def parse_and_observe(text, lang):
    import mwlib.parser.expander  # noqa
    from mwlib.parser import advtree
    from mwlib.parser.refine.uparser import parse_string
    from ..gen.db import SynthDB
    from ..mon.treeobs import observe
    tree = parse_string("T", text, SynthDB({}, lang), lang=lang)
    advtree.build_advanced_tree(tree)
    return tree, observe(tree)


_refs = {}


def ref_for(lang):
    if lang not in _refs:
        from mwlib.network.siteinfo import get_siteinfo
        from .C12 import Ref
        _refs[lang] = Ref(get_siteinfo(lang))
    return _refs[lang]


def run_shard(desc, R):
    import logging
    logging.disable(logging.CRITICAL)
    rnd = random.Random("C02:%s:%s" % (desc["seed"], desc["shard"]))
    for _ in range(desc["count"]):
        lang = rnd.choice(W.LANGS)
        seed = rnd.getrandbits(48)
        check_doc(R, seed, lang, rnd.choice((30, 80, 150, 300)))


def check_doc(R, seed, lang, maxwords):
    r2 = random.Random(seed)
    doc, text = grammar.make(r2, maxwords=maxwords)
    den = grammar.denotation(doc)
    case = {"gen_seed": seed, "lang": lang, "maxwords": maxwords, "text": text}
    R.breadcrumb(json.dumps(case))
    kinds = {lab[0] for _, c in den for lab in c}
    for k in ("table", "list", "section", "ref", "link", "pre", "extlink", "dterm", "style"):
        if k in kinds:
            R.count("constructs_" + k)
    try:
        tree, obs = parse_and_observe(text, lang)
    except Exception as e:
        R.violation("raises:" + exc_key(e), "parsing a well-formed document raised %s" % type(e).__name__, case, exc_detail(e))
        R.case(h64(text), len(kinds) >= 3)
        return
    R.count("documents_compared")
    R.count("words_compared", len(den))
    res = compare(den, obs, ref_for(lang))
    R.case(h64(text), len(kinds) >= 3, sample={"text": text[:400], "lang": lang, "words": len(den)})
    if res:
        key, what = res
        small = shrink_doc(seed, lang, maxwords, key)
        case["text"] = small or text
        R.violation(key, what, case)


def shrink_doc(seed, lang, maxwords, key):
    """try smaller word budgets with the same generator seed; keep the smallest document with the same key"""
    best = None
    for mw in (10, 20, 40, 80):
        if mw >= maxwords:
            break
        r2 = random.Random(seed)
        doc, text = grammar.make(r2, maxwords=mw)
        try:
            _, obs = parse_and_observe(text, lang)
        except Exception:
            continue
        res = compare(grammar.denotation(doc), obs, ref_for(lang))
        if res and res[0] == key:
            return text
    return best


def replay(case):
    import logging
    logging.disable(logging.CRITICAL)
    text, lang = case["text"], case["lang"]
    # the text alone does not carry the AST: regenerate it from the seed and find the matching budget
    for mw in (10, 20, 40, 80, case.get("maxwords", 300)):
        r2 = random.Random(case["gen_seed"])
        doc, t = grammar.make(r2, maxwords=mw)
        if t == text:
            _, obs = parse_and_observe(text, lang)
            res = compare(grammar.denotation(doc), obs, ref_for(lang))
            print(text)
            return [(res[0], res[1], None)] if res else []
    return [("replay:text-not-regenerated", "generator changed since the witness was recorded", None)]
