"""C13 Metabooks round-trip through JSON and identify collections deterministically.

Algebraic laws monitored on the real myjson / metabook / make_collection_id code over generated
metabooks: (L1) loads(dumps(mb)) describes the same book, (L2) re-serialising is a fixed point,
(L3) the collection id is invariant under re-encodings of the same request (and across processes),
(L4) ids differ for requests that differ in exactly one relevant field, (L5) instances are isolated.
"""
import copy
import json
import os
import random

from ..child import exc_detail, exc_key, h64

ID = "C13"
LEVEL = "exploration"
RULE = ("generated metabooks: 0-30 articles, chapters (also empty ones), optional schema fields and extra fields "
        "(url, timestamp, authors, source-url, license name/url ...) present or absent in shuffled key order, "
        "Unicode titles (NFC/NFD, compatibility characters, RTL, emoji, CJK), wikis and licenses; every metabook is "
        "built as real objects, serialised, re-loaded and re-encoded in several JSON styles; pairs of requests equal "
        "up to encoding or differing in exactly one of {article title, revision, item order, chapter title, base_url, "
        "script_extension}; non-trivial = metabook has >=2 items; distinct = distinct canonical descriptions")
ASSUMPTIONS = [
    "equality of metabooks = equality of the harness's own description walk (class, non-None public attributes, "
    "item order and nesting)",
    "both nserve.make_collection_id and serve.make_collection_id are checked",
]
REQUIRED = {"concurrent_request_rounds": 100, "probe_processes_with_other_hash_seed": 6, "roundtrips": 500, "id_invariance_checks": 1000, "id_sensitivity_pairs": 1000, "isolation_rechecks": 200,
            "with_chapters": 100, "with_extra_fields": 100, "non_nfkc_titles": 50}
LEVEL_TEXT = ("Exploration: 2e4 (quick) / 1e6 (thorough) generated metabooks and request pairs run through the real "
              "serialisation and id code in long-lived processes (so that state carried between requests shows); five "
              "algebraic laws are checked on every one; ids come from nserve/serve make_collection_id and from "
              "Application.new_collection, are compared pairwise over 16 wiki URL variants, and are cross-checked between "
              "shard processes and fresh interpreters started with other string-hash seeds.")
LEVEL_NOTE = "Trusts the generator's plain-data description as the meaning of a metabook."
TECHNIQUE = "runtime law monitor (round trip, fixed point, id invariance/sensitivity, instance isolation) over generated metabooks in long-lived processes"

TITLES = ["Alpha", "Beta Gamma", "Ärger", "École", "naïve", "école", "E=mc²", "ﬁsh", "Ⅰ", "Ｆｕｌｌ", "½ cup",
          "שלום", "مرحبا", "日本語", "한글", "😀 party", "a/b", "x:y", "under_score", " spaced ", "", "q\"uote", "back\\slash",
          "tab\tx", "new\nline", "‎LRM", "ǆ", "İstanbul", "ß", "µ", "Ω", "K"]


def gen_desc(rnd, nmax=12):
    def article():
        d = {"type": "article", "title": rnd.choice(TITLES) + (" %d" % rnd.randint(1, 9999) if rnd.random() < 0.7 else "")}
        if rnd.random() < 0.5:
            d["revision"] = str(rnd.randint(1, 10 ** 9)) if rnd.random() < 0.7 else rnd.randint(1, 10 ** 6)
        if rnd.random() < 0.3:
            d["displaytitle"] = rnd.choice(TITLES)
        if rnd.random() < 0.2:
            d["wikiident"] = rnd.choice(("en", "de", "w1"))
        extra = [("url", "http://w.test/wiki/%d" % rnd.randint(1, 99)), ("timestamp", rnd.randint(10 ** 9, 2 * 10 ** 9)),
                 ("authors", [rnd.choice(TITLES) for _ in range(rnd.randint(0, 3))]), ("source-url", "http://w.test/w/"),
                 ("currentVersion", rnd.randint(0, 1)), ("latest", rnd.randint(1, 999))]
        rnd.shuffle(extra)
        for k, v in extra[: rnd.choice((0, 0, 1, 2, 4))]:
            d[k] = v
        return d

    def chapter():
        return {"type": "chapter", "title": rnd.choice(TITLES), "items": [article() for _ in range(rnd.randint(0, 4))]}

    items = []
    for _ in range(rnd.randint(0, nmax)):
        items.append(chapter() if rnd.random() < 0.25 else article())
    d = {"type": "collection", "version": 1, "items": items}
    for k in ("title", "subtitle", "editor", "summary", "description", "sort_as", "cover_image"):
        if rnd.random() < 0.4:
            d[k] = rnd.choice(TITLES)
    if rnd.random() < 0.5:
        d["licenses"] = []
        for _ in range(rnd.randint(0, 2)):
            lic = [("type", "license"), ("title", rnd.choice(TITLES)), ("wikitext", "lic ''text''")]
            ex = [("name", "GFDL"), ("mw_license_url", "http://w.test/l"), ("mw_rights_text", "t"), ("mw_rights_page", "P")]
            rnd.shuffle(ex)
            lic += ex[: rnd.randint(0, 3)]
            d["licenses"].append(dict(lic))
    if rnd.random() < 0.5:
        d["wikis"] = [{"type": "wikiconf", "baseurl": "http://w%d.test/w/" % rnd.randint(1, 5), "ident": rnd.choice(("en", "w1"))}
                      for _ in range(rnd.randint(0, 2))]
    return d


def shuffle_keys(obj, rnd):
    if isinstance(obj, dict):
        items = list(obj.items())
        rnd.shuffle(items)
        return {k: shuffle_keys(v, rnd) for k, v in items}
    if isinstance(obj, list):
        return [shuffle_keys(x, rnd) for x in obj]
    return obj


def build(desc):
    """real objects from the plain description, through the constructors"""
    from mwlib.core import metabook
    klass = {"collection": metabook.Collection, "article": metabook.Article, "chapter": metabook.Chapter,
             "license": metabook.License, "wikiconf": metabook.WikiConf}[desc["type"]]
    kw = {}
    for k, v in desc.items():
        if k == "type":
            continue
        if isinstance(v, list) and v and isinstance(v[0], dict) and "type" in v[0]:
            v = [build(x) for x in v]
        elif isinstance(v, list):
            v = list(v)
        kw[k] = v
    return klass(**kw)


def describe(obj):
    """plain-data description of real objects: what 'equal metabook' means"""
    from mwlib.core.metabook import MetabookObject
    if isinstance(obj, MetabookObject):
        out = {"type": type(obj).__name__.lower()}
        for k, v in vars(obj).items():
            if k.startswith("_") or k == "type" or v is None:
                continue
            out[k] = describe(v)
        return out
    if isinstance(obj, (list, tuple)):
        return [describe(x) for x in obj]
    if isinstance(obj, dict):
        return {k: describe(v) for k, v in obj.items()}
    return obj


def expected_description(desc):
    """the description a faithful object graph must have: the generated data plus class defaults"""
    d = build(desc)
    return describe(d)


def norm_desc(desc):
    """generator description brought to the same shape (class defaults are added by the objects; they are
    compared through a second, independently built instance instead)"""
    return desc


def encodings(desc, rnd):
    """several JSON texts of one request metabook"""
    out = [json.dumps(desc), json.dumps(shuffle_keys(desc, rnd), indent=rnd.choice((None, 1, 4))),
           json.dumps(shuffle_keys(desc, rnd), ensure_ascii=False, separators=(",", ":")),
           json.dumps(shuffle_keys(desc, rnd), sort_keys=True)]
    return out


def mutate_one(desc, rnd):
    """a copy differing in exactly one relevant field; returns (kind, new) or None"""
    d = copy.deepcopy(desc)
    arts = []

    def collect(items):
        for it in items:
            if it["type"] == "article":
                arts.append(it)
            else:
                collect(it["items"])

    collect(d["items"])
    chapters = [it for it in d["items"] if it["type"] == "chapter"]
    kinds = []
    if arts:
        kinds += ["title", "revision"]
    if len(d["items"]) >= 2:
        kinds.append("order")
    if chapters:
        kinds.append("chapter-title")
    if not kinds:
        return None
    k = rnd.choice(kinds)
    if k == "title":
        a = rnd.choice(arts)
        a["title"] = a["title"] + rnd.choice(("x", " (2)", "²", "́"))
    elif k == "revision":
        a = rnd.choice(arts)
        a["revision"] = str(int(a.get("revision") or 0) + rnd.randint(1, 9))
    elif k == "order":
        i = rnd.randrange(len(d["items"]) - 1)
        if d["items"][i] == d["items"][i + 1]:
            return None
        d["items"][i], d["items"][i + 1] = d["items"][i + 1], d["items"][i]
    else:
        c = rnd.choice(chapters)
        c["title"] = c["title"] + "!"
    return k, d


WIKI_URLS = ["http://w.test/w/", "http://w.test/w", "http://w.test/", "http://w.test/de/", "http://w.test/en/", "http://w.test/hi/",
             "http://w.test/id/", "http://w.test/w/index.php", "http://w.test/wiki/", "https://w.test/w/", "http://w.test/pl/",
             "http://w.test/nn/", "http://de.w.test/w/", "http://w.test:8080/w/", "http://w.test/w/?x", "http://w.test/W/"]


def plan(tier, seed):
    n = 16
    per = 150 if tier == "quick" else 8000
    return [{"shard": i, "count": per, "seed": seed} for i in range(n)]


def concurrent_requests(R, rnd, rounds):
    """two render requests dispatched concurrently through the server's own dispatch function (the queue client
    yields inside qadd, as a socket would): each answer and each queued job must carry the id of its own request"""
    import contextlib
    import io
    import gevent
    from mwlib.core import nserve

    calls = []

    class FakeProxy:
        def __init__(self, host=None, port=None):
            pass

        def qadd(self, **kw):
            gevent.sleep(0)
            calls.append(kw)
            gevent.sleep(0)
            return kw.get("jobid")

    class Params(dict):     # like bottle's FormsDict: a mapping that also has a __dict__
        pass

    class Req:
        def __init__(self, params):
            self.params = Params(params)
            self.url = "http://render.test/"

    saved = (nserve.rpcclient.ServerProxy, nserve.choose_idle_qserve, nserve.request)
    nserve.rpcclient.ServerProxy = FakeProxy
    nserve.choose_idle_qserve = lambda: ("qs.test", 14311)
    try:
        for _ in range(rounds):
            reqs = []
            for j in range(rnd.randint(2, 3)):
                d = gen_desc(rnd, 3)
                reqs.append({"command": "render", "writer": "rl", "base_url": rnd.choice(WIKI_URLS), "script_extension": ".php",
                             "metabook": json.dumps(d)})
            with contextlib.redirect_stdout(io.StringIO()):
                want = [nserve.make_collection_id(p) for p in reqs]
            if len(set(want)) != len(want):
                continue
            del calls[:]
            answers = [None] * len(reqs)

            def go(i):
                nserve.request = Req(reqs[i])
                with contextlib.redirect_stdout(io.StringIO()):
                    answers[i] = nserve.dispatch_command("/")

            gs = [gevent.spawn(go, i) for i in range(len(reqs))]
            gevent.joinall(gs, timeout=30)
            R.count("concurrent_request_rounds")
            case = {"concurrent": reqs}
            for i, a in enumerate(answers):
                if not isinstance(a, dict) or a.get("collection_id") != want[i]:
                    R.violation("L3:concurrent-requests-mix-ids:answer", "request %d was answered with collection id %r, its own id is %r" % (
                        i, (a or {}).get("collection_id") if isinstance(a, dict) else a, want[i]), case)
                    break
            else:
                for kw in calls:
                    mbk = kw["payload"]["params"].get("metabook_data")
                    owner = [i for i, p in enumerate(reqs) if p["metabook"] == mbk]
                    if not owner or not str(kw["jobid"]).startswith(want[owner[0]] + ":"):
                        R.violation("L3:concurrent-requests-mix-ids:job", "a job for the metabook of request %r was queued as %r" % (
                            owner, kw["jobid"]), case)
                        break
    finally:
        nserve.rpcclient.ServerProxy, nserve.choose_idle_qserve, nserve.request = saved


def run_shard(desc_, R):
    import contextlib
    import io
    import logging
    logging.disable(logging.CRITICAL)
    from mwlib.core import metabook, nserve, serve
    from mwlib.utils import myjson
    rnd = random.Random("C13:%s:%s" % (desc_["seed"], desc_["shard"]))
    earlier = []        # (objects, their description at build time) for the isolation re-check
    idfuncs = [("nserve", nserve.make_collection_id), ("serve", serve.make_collection_id),
               # the request-level entry point of the render server
               ("app", lambda params: nserve.Application().new_collection(params))]

    def cid(fn, params):
        with contextlib.redirect_stdout(io.StringIO()):
            return fn(params)

    # a fixed probe request whose id every shard process reports (cross-process determinism)
    probe = {"base_url": "http://w.test/w/", "script_extension": ".php",
             "metabook": json.dumps(gen_desc(random.Random("C13:probe:%s" % desc_["seed"]), 6))}
    for name, fn in idfuncs:
        R.seen("probe_id_" + name, cid(fn, probe))
    if desc_["shard"] < 4:
        # the same probe in fresh interpreters with other string-hash seeds (a restarted or second server process)
        import subprocess
        import sys
        code = ("import sys,json,io,contextlib\nfrom mwlib.core import nserve, serve\np=json.loads(sys.argv[1])\n"
                "o={}\nwith contextlib.redirect_stdout(io.StringIO()):\n"
                "    o['nserve']=nserve.make_collection_id(p); o['serve']=serve.make_collection_id(p); o['app']=nserve.Application().new_collection(p)\n"
                "print('IDS '+json.dumps(o))")
        for hs in (str(1 + desc_["shard"] * 3), str(2 + desc_["shard"] * 3), "random"):
            env = dict(os.environ, PYTHONHASHSEED=hs)
            pr = subprocess.run([sys.executable, "-c", code, json.dumps(probe)], env=env, stdout=subprocess.PIPE,
                                stderr=subprocess.PIPE, timeout=300)
            for line in pr.stdout.decode().splitlines():
                if line.startswith("IDS "):
                    for k, v in json.loads(line[4:]).items():
                        R.seen("probe_id_" + k, v)
                    R.count("probe_processes_with_other_hash_seed")

    concurrent_requests(R, rnd, 20)
    # in-place growth of one book's wiki / licence lists (as set_environment and the apps do) must stay in that book
    grown = metabook.Collection()
    grown.wikis.append(metabook.WikiConf(baseurl="http://grown.test/w/", ident="g"))
    grown.licenses.append({"mw_rights_text": "L", "name": "L"})
    for _ in range(desc_["count"]):
        d = gen_desc(rnd, rnd.choice((2, 6, 12, 30)))
        case = {"desc": d}
        R.breadcrumb(json.dumps(case))
        nitems = len(d["items"])
        if any(it["type"] == "chapter" for it in d["items"]):
            R.count("with_chapters")
        flat = json.dumps(d)
        if any(k in flat for k in ('"url"', '"timestamp"', '"authors"', '"mw_license_url"', '"name"')):
            R.count("with_extra_fields")
        import unicodedata
        flat_u = json.dumps(d, ensure_ascii=False)
        if unicodedata.normalize("NFKC", flat_u) != flat_u:
            R.count("non_nfkc_titles")
        try:
            mb = build(d)
            want = describe(mb)
            # a second, independent instance must describe identically (and not share state with the first)
            s1 = myjson.dumps(mb)
            back = myjson.loads(s1)
            got = describe(back)
            R.count("roundtrips")
            if got != want:
                R.violation("L1:roundtrip-differs:" + diff_kind(want, got), "loads(dumps(mb)) is not the same metabook: %s" % diff_text(want, got), case)
            s2 = myjson.dumps(back)
            if json.loads(s2) != json.loads(s1):
                R.violation("L2:not-a-fixed-point", "dumps(loads(dumps(mb))) differs from dumps(mb)", case)
            if back.dumps() != mb.dumps():
                R.violation("L2:collection-dumps-not-a-fixed-point", "Collection.dumps differs after a round trip", case)
            # L3 invariance / L4 sensitivity
            base = {"base_url": "http://w.test/w/", "script_extension": ".php", "writer": "rl"}
            for name, fn in idfuncs:
                ids = set()
                encs = encodings(d, rnd) + [s1, mb.dumps()]
                for e in encs:
                    ids.add(cid(fn, dict(base, metabook=e)))
                    R.count("id_invariance_checks")
                # ask again after other requests went through this process
                ids.add(cid(fn, dict(base, metabook=encs[0])))
                if len(ids) != 1:
                    R.violation("L3:id-depends-on-encoding:" + name, "%d different ids for re-encodings of one request" % len(ids), case)
                    continue
                the_id = next(iter(ids))
                for _ in range(3):
                    m = mutate_one(d, rnd)
                    if m is None:
                        continue
                    kind, d2 = m
                    other = cid(fn, dict(base, metabook=json.dumps(d2)))
                    R.count("id_sensitivity_pairs")
                    if other == the_id:
                        R.violation("L4:id-insensitive:%s:%s" % (kind, name), "requests differing in %s get the same collection id" % kind,
                                    {"desc": d, "other": d2})
                for key, val in (("base_url", "http://other.test/w/"), ("script_extension", ".php5")):
                    other = cid(fn, dict(base, metabook=encs[0], **{key: val}))
                    R.count("id_sensitivity_pairs")
                    if other == the_id:
                        R.violation("L4:id-insensitive:%s:%s" % (key, name), "requests differing in %s get the same collection id" % key, case)
                # wikis of one farm: pairwise different URLs, pairwise different ids
                urls = rnd.sample(WIKI_URLS, 4)
                seen_ids = {}
                for u in urls:
                    i = cid(fn, dict(base, metabook=encs[0], base_url=u))
                    R.count("id_sensitivity_pairs")
                    if i in seen_ids:
                        R.violation("L4:id-insensitive:base_url-variant:%s" % name,
                                    "wikis %r and %r get the same collection id for one metabook" % (seen_ids[i], u), case)
                        break
                    seen_ids[i] = u
        except Exception as e:
            R.violation("raises:" + exc_key(e), "%s: %s" % (type(e).__name__, str(e)[:100]), case, exc_detail(e))
            R.case(h64(flat), nitems >= 2)
            continue
        R.case(h64(json.dumps(d, sort_keys=True)), nitems >= 2, sample={"metabook": d} if nitems <= 3 else None)
        # L5: mutate through the public API, then make sure other instances did not move
        if rnd.random() < 0.3:
            mb.append_article("Appended %d" % rnd.randint(1, 99))
            want = describe(mb)
        earlier.append((mb, want))
        if len(earlier) > 40:
            earlier.pop(rnd.randrange(len(earlier)))
        fresh = metabook.Collection()
        if fresh.items or fresh.licenses or fresh.wikis:
            R.violation("L5:class-level-state-shared", "a fresh Collection() is not empty: %d items" % len(fresh.items), case)
        for obj, w in earlier[-5:]:
            R.count("isolation_rechecks")
            if describe(obj) != w:
                R.violation("L5:instance-changed-by-another", "a metabook built earlier changed while others were built", case)
                break


def diff_kind(a, b, path=""):
    if type(a) != type(b):
        return "type"
    if isinstance(a, dict):
        for k in sorted(set(a) | set(b)):
            if k not in a:
                return "extra-attribute"
            if k not in b:
                return "lost-attribute"
            if a[k] != b[k]:
                r = diff_kind(a[k], b[k])
                return r if r != "value" else ("value:" + (k if k in ("title", "revision", "items", "type", "displaytitle") else "other"))
        return "value"
    if isinstance(a, list):
        if len(a) != len(b):
            return "item-count"
        for x, y in zip(a, b):
            if x != y:
                return diff_kind(x, y)
    return "value"


def diff_text(a, b):
    sa, sb = json.dumps(a, sort_keys=True), json.dumps(b, sort_keys=True)
    i = next((i for i, (x, y) in enumerate(zip(sa, sb)) if x != y), min(len(sa), len(sb)))
    return "...%s  vs  ...%s" % (sa[max(0, i - 40):i + 60], sb[max(0, i - 40):i + 60])


def finish(S, tier):
    """cross-process determinism of the id"""
    for k in ("probe_id_nserve", "probe_id_serve", "probe_id_app"):
        ids = S["sets"].get(k, set())
        if len(ids) > 1:
            S["violations"].append({"key": "L3:id-differs-between-processes", "what": "%s: %d different ids for one request across shard processes" % (k, len(ids)),
                                    "case": {"probe": k}, "detail": None})


def replay(case):
    import logging
    logging.disable(logging.CRITICAL)
    from mwlib.utils import myjson
    if "desc" not in case:
        return []
    mb = build(case["desc"])
    want = describe(mb)
    got = describe(myjson.loads(myjson.dumps(mb)))
    out = []
    if want != got:
        out.append(("L1:roundtrip-differs", diff_text(want, got), None))
    return out
