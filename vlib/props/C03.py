"""C03 Template expansion always terminates with a string, whatever templates contain.

(a) function sweep: every registered magic word / parser function / dummy word / site alias x argument
counts 0..3 x argument shapes, each call judged by the boundary monitor (returns str, no exception), the
proportionality monitor (CPU time and output length vs argument size) and the supervisor's CPU guard;
(b) program fuzz: template universes with cycles, self-inclusion, unbalanced braces, under the step
clock, with a recursion high-water monitor installed on Expander.recursion_count.
"""
import itertools
import json
import random
import time

from ..child import exc_detail, exc_key, h64
from ..gen import wikitext as W

ID = "C03"
LEVEL = "exploration"
SAN = False
CASE_CPU = 20       # supervisor: CPU seconds one expansion may burn (ordinary calls: < 1 ms)
CALL_CPU = 1.0      # in-process: process_time of one sweep call
RULE = ("(a) every registered function name (MagicResolver attributes, magic_nodes registry, dummy words, site "
        "aliases of the 12 siteinfos) called as {{N}}, {{N:a}}, {{N:a|b}}, {{N:a|b|c}}, {{N|a|b}} with argument "
        "shapes {empty, word, 0, 7, -3, 2.5, 1e3, 1e400, 999999999999, 9e999999999, a/b/c, ../x, Ns:Title, nested "
        "call, date format}; all pairs for <=2 arguments, sampled triples; (b) random template universes of 0-6 "
        "pages over the template alphabet incl. cycles and unbalanced braces; non-trivial = the call reached a "
        "registered function (a) / at least one template page was looked up (b); distinct = distinct (site, text, pages)")
ASSUMPTIONS = [
    "out of proportion = output longer than 4096 + 64*len(text), or > 1 s process CPU for one call of <= 64 argument "
    "characters (ordinary calls: < 1 ms), or killed by the 20 s CPU supervisor / 2 GiB address-space limit",
    "the recursion counter may legitimately reach recursion_limit + 1 (it is compared with > before the increment)",
]
REQUIRED = {"deep_nesting_cases": 40, "brace_sequences": 50000, "expr_calls": 3000, "sweep_calls": 2000, "program_expansions": 500, "functions_reached": 100, "recursion_watermarks": 100,
            "cyclic_universes": 20}
LEVEL_TEXT = ("Exploration with a bounded-exhaustive part: the function sweep enumerates every registered name x "
              "argument count 0..3 x shape pairs on the real Expander; a boundary monitor, a proportionality monitor "
              "(CPU + output size) and a recursion high-water monitor judge each call; random template universes "
              "(cycles, unbalanced braces) run under the step clock; every #expr operator x operand pair and every "
              "brace-token sequence up to length 5 (6 thorough), as page text and as template body, is expanded too.")
LEVEL_NOTE = ("CPU guard is coarse (catches blow-ups, not slowness); shapes outside the sweep are only reached by the "
              "random programs.")
TECHNIQUE = "runtime boundary + resource monitors (exception/type, CPU, output size, recursion high-water) over bounded-exhaustive function, #expr-operator and brace-sequence sweeps and fuzzed template universes"

SHAPES = ["", "word", "0", "7", "-3", "2.5", "1e3", "1e400", "999999999999", "9e999999999", "a/b/c", "../x",
          "Template:Title", "{{lc:AbC}}", "Y-m-d H:i", "x=1", " 12 ", "2024-02-30", "<b>q</b>", "99999",
          # arithmetic / format arguments in which a number buys work
          "7^30000000", "2^2^2^2^2^2", "1e9^1e9", "99999999999999999999*99999999999999999999", "1 round 99999999",
          "exp 1000", "10 mod 3", "1/0", "trunc 1e300", "xrU", "xg xn xjj", "U", "D, d M Y", "-1e400", "0x10", "1.5e-400",
          "9999999999999999999999999999999999999999",
          "9" * 4301,     # more digits than int() converts
          # markup-bearing arguments with long attribute lists (what #iferror and the tag functions look through)
          '<span class="' + " ".join("c%d" % i for i in range(32)) + '">x</span>',
          '<strong class="error ' + " ".join("k%d" % i for i in range(32)) + '">e</strong>',
          '<div ' + " ".join('a%d="v"' % i for i in range(40)) + '>d</div>']


EXPR_OPERANDS = ["0", "1", "7", "-3", "2.5", "(0-7)", "99999999", "-99999999", "(0-99999999)", "1e7", "-1e7", "1e400",
                 "0.0000001", "99999999999999999999", "(0-1e9)", "pi", "e", "1e-400", ".5"]
EXPR_BINARY = ["^", "e", "*", "/", "div", "mod", "+", "-", "round", "<", ">", "<=", ">=", "!=", "<>", "=", "and", "or"]
EXPR_UNARY = ["-", "+", "not", "abs", "sin", "cos", "asin", "acos", "tan", "atan", "exp", "ln", "ceil", "floor", "trunc"]


def expr_texts(rnd, nrandom):
    """#expr / #ifexpr calls: every operator x every pair of operands, then random 2-3 operator expressions"""
    for op in EXPR_BINARY:
        for a, b in itertools.product(EXPR_OPERANDS, repeat=2):
            yield "{{#expr:%s %s %s}}" % (a, op, b)
    for op in EXPR_UNARY:
        for a in EXPR_OPERANDS:
            yield "{{#expr:%s %s}}" % (op, a)
            yield "{{#ifexpr:%s %s|y|n}}" % (op, a)

    def term(d):
        x = rnd.random()
        if d <= 0 or x < 0.45:
            return rnd.choice(EXPR_OPERANDS)
        if x < 0.6:
            return "%s %s" % (rnd.choice(EXPR_UNARY), term(d - 1))
        if x < 0.7:
            return "(%s)" % term(d - 1)
        return "%s %s %s" % (term(d - 1), rnd.choice(EXPR_BINARY), term(d - 1))

    for _ in range(nrandom):
        yield "{{#expr:%s}}" % term(3)


def plan(tier, seed):
    n = 16
    shards = [{"kind": "sweep", "shard": i, "n": n, "seed": seed, "aliases": 12 if tier == "quick" else 100000,
               "triples": 20 if tier == "quick" else 400}
              for i in range(n)]
    shards += [{"kind": "braces", "shard": i, "n": 16, "seed": seed, "depth": 5 if tier == "quick" else 6,
                "random": 2000 if tier == "quick" else 100000} for i in range(16)]
    shards += [{"kind": "deep", "shard": 0, "seed": seed}]
    shards += [{"kind": "expr", "shard": i, "n": 4, "seed": seed, "random": 300 if tier == "quick" else 20000} for i in range(4)]
    shards += [{"kind": "programs", "shard": i, "count": 500 if tier == "quick" else 40000, "seed": seed}
               for i in range(n)]
    return shards


def all_names():
    """[(site, name)]: canonical names on 'en', aliases on their own site"""
    from mwlib.network.siteinfo import get_siteinfo
    from mwlib.parser.templ import magic_nodes, magics
    mr = magics.MagicResolver()
    canon = set()
    for nme in dir(mr):
        if nme.startswith("_") or nme in ("local_values", "source", "nshandler", "wikidb", "utcnow", "now"):
            continue
        if callable(getattr(mr, nme, None)) and nme == nme.upper():
            canon.add(nme)
    canon |= set(magic_nodes.registry)
    canon |= {w.upper() for w in magics.magic_words}
    out = [("en", c) for c in sorted(canon)]
    lowered = {c.lower().lstrip("#") for c in canon}
    aliases = []
    for lang in W.LANGS:
        si = get_siteinfo(lang)
        for mw in si.get("magicwords", []):
            if mw["name"].lower() in lowered:
                for a in mw["aliases"]:
                    aliases.append((lang, a))
                    aliases.append((lang, "#" + a))
    return out, sorted(set(aliases))


def call_texts(name, rnd, triples):
    yield "{{%s}}" % name
    for a in SHAPES:
        yield "{{%s:%s}}" % (name, a)
        yield "{{%s|%s}}" % (name, a)
    for a, b in itertools.product(SHAPES, repeat=2):
        yield "{{%s:%s|%s}}" % (name, a, b)
    for _ in range(triples):
        a, b, c = (rnd.choice(SHAPES) for _ in range(3))
        yield "{{%s:%s|%s|%s}}" % (name, a, b, c)
        yield "{{%s|%s|%s|%s}}" % (name, a, b, c)


_watermark = {"max": 0}
_last = {}


def install_watermark():
    """property on Expander.recursion_count recording its high-water mark (decides nothing by itself)"""
    from mwlib.parser.templ import evaluate
    if isinstance(getattr(evaluate.Expander, "recursion_count", None), property):
        return

    def get(self):
        return self.__dict__.get("_rc", 0)

    def set_(self, v):
        self.__dict__["_rc"] = v
        if v > _watermark["max"]:
            _watermark["max"] = v

    evaluate.Expander.recursion_count = property(get, set_)


def expand(text, db, pagename="Thispage"):
    from mwlib.parser.templ.evaluate import Expander
    _watermark["max"] = 0
    e = Expander(text, pagename=pagename, wikidb=db)
    _last["expander"] = e
    res = e.expandTemplates()
    return res, e


def judge(R, text, db, dbspec, lang, what_kind, use_clock=False):
    """one expansion under the monitors; returns (ok, result)"""
    from ..mon import stepclock
    case = {"text": text, "db": dbspec, "lang": lang}
    R.breadcrumb(json.dumps(case))
    t0 = time.process_time()
    try:
        if use_clock:
            with stepclock.budget(3 * 10 ** 6 + 20000 * (len(text) + sum(len(v) for v in (dbspec or {}).values()))):
                res, e = expand(text, db)
        else:
            res, e = expand(text, db)
    except stepclock.StepBudgetExceeded as ex:
        R.violation("hang:" + exc_key(ex).split("@", 1)[1], "expansion exceeded its step budget", case, exc_detail(ex))
        return False, None
    except BaseException as ex:  # noqa: anything escaping expandTemplates refutes C03
        name = discriminator(text) if what_kind == "sweep" else "program"
        R.violation("raises:%s:%s" % (exc_key(ex), name),
                    "expandTemplates raised %s: %s" % (type(ex).__name__, str(ex)[:100]), case, exc_detail(ex))
        return False, None
    dt = time.process_time() - t0
    if not isinstance(res, str):
        R.violation("returns-non-str:" + type(res).__name__, "expandTemplates returned %r" % type(res), case)
        return False, None
    R.count("recursion_watermarks")
    if _watermark["max"] > e.recursion_limit + 2:
        R.violation("recursion:counter-exceeds-limit", "recursion counter reached %d (limit %d)" % (
            _watermark["max"], e.recursion_limit), case)
    R.seen("recursion_high_water_bucket", str(min(_watermark["max"] // 10 * 10, 110)))
    if what_kind == "sweep":
        if dt > CALL_CPU:
            R.violation("disproportionate-cpu:" + discriminator(text),
                        "one call with %d characters of arguments took %.1f s CPU" % (len(text), dt), case)
        if len(res) > 4096 + 64 * len(text):
            R.violation("disproportionate-output:" + discriminator(text),
                        "%d characters of call produced %d characters of output" % (len(text), len(res)), case)
    return True, res


def discriminator(text):
    """canonical function name of a sweep call (site aliases resolved), upper-cased: a mechanism
    discriminator, not a case id"""
    inner = text[2:]
    if inner.lower().startswith(("#expr:", "#ifexpr:")):
        import re
        ops = sorted(set(re.findall(r"[a-z]+|\^", inner.split(":", 1)[1].split("|")[0].lower())) &
                     (set(EXPR_BINARY) | set(EXPR_UNARY)) - {"e"})
        return inner.split(":", 1)[0].upper() + ":" + "+".join(ops)
    name = "?"
    for i, c in enumerate(inner):
        if c in ":|}":
            name = inner[:i].strip()
            break
    e = _last.get("expander")
    if e is not None:
        try:
            name = e.resolve_magic_alias(name) or name
        except Exception:
            pass
    return name.upper()


def run_shard(desc, R):
    import logging
    import resource
    logging.disable(logging.CRITICAL)
    resource.setrlimit(resource.RLIMIT_AS, (3 << 30, 3 << 30))
    import mwlib.parser.expander  # noqa: first, as the package expects (import cycle otherwise)
    from ..gen.db import SynthDB
    install_watermark()
    rnd = random.Random("C03:%s:%s:%s" % (desc["kind"], desc["seed"], desc["shard"]))
    if desc["kind"] == "sweep":
        from mwlib.parser.templ import magics
        canon, aliases = all_names()
        rnd2 = random.Random("C03:aliases:%s" % desc["seed"])
        if len(aliases) > desc["aliases"] * 16:
            aliases = rnd2.sample(aliases, desc["aliases"] * 16)
        work = [(s, nme, True) for (s, nme) in canon] + [(s, nme, False) for (s, nme) in aliases]
        dbs = {}
        reached_before = set()
        # count which functions are reached: wrap MagicResolver.__call__
        orig_call = magics.MagicResolver.__call__

        def counting_call(self, name, args):
            if getattr(self, str(name).upper(), None) is not None:
                reached_before.add(str(name).upper())
            return orig_call(self, name, args)

        magics.MagicResolver.__call__ = counting_call
        for i, (lang, nme, full) in enumerate(work):
            if i % desc["n"] != desc["shard"]:
                continue
            db = dbs.setdefault(lang, SynthDB({"Title": "tpl body {{{1|}}}"}, lang))
            texts = call_texts(nme, rnd, desc["triples"]) if full else \
                itertools.islice(call_texts(nme, rnd, 2), 0, 2 + 2 * len(SHAPES))
            for text in texts:
                ok, res = judge(R, text, db, {"Title": "tpl body {{{1|}}}"}, lang, "sweep")
                R.count("sweep_calls")
                R.case(h64(lang, text), True, sample={"site": lang, "text": text, "result": (res or "")[:80]} if ok else None)
        R.count("functions_reached", len(reached_before))
        for f in reached_before:
            R.seen("functions", f)
        return
    if desc["kind"] == "deep":
        # braces nested deeper than any recursion limit, in the page and in a template page
        makers = {"if": lambda n: "{{#if:1|" * n + "x" + "}}" * n, "param": lambda n: "{{{" * n + "x" + "}}}" * n,
                  "call": lambda n: "{{a|" * n + "x" + "}}" * n, "default": lambda n: "{{{1|" * n + "x" + "}}}" * n,
                  "switch": lambda n: "{{#switch:1|1=" * n + "x" + "}}" * n, "open-only": lambda n: "{{" * n + "x"}
        for nm, mk in sorted(makers.items()):
            for n in (150, 400, 1100, 3000):
                body = mk(n)
                for where, pages, text in (("template", {"deep": body, "a": "A{{{1}}}"}, "p {{deep}} q {{deep|z}}"),
                                           ("page", {"a": "A{{{1}}}"}, "p " + body + " q")):
                    judge(R, text, SynthDB(pages, "en"), pages, "en", "program", use_clock=False)
                    R.count("deep_nesting_cases")
                    R.case(h64("deep", nm, n, where), True)
        return
    if desc["kind"] == "braces":
        # unbalanced braces: every token sequence up to the depth, as page text and as the body of a called template
        toks = ["{{", "{{{", "}}", "}}}", "}", "{", "|", "=", "a", "t", " "]
        pages0 = {"t": "[{{{1|d}}}]", "a": "A"}

        def seqs():
            for ln in range(1, desc["depth"] + 1):
                for tup in itertools.product(toks, repeat=ln):
                    yield "".join(tup)
            r2 = random.Random("C03:braces:%s" % desc["seed"])
            for _ in range(desc["random"] * desc["n"]):
                yield "".join(r2.choice(toks) for _ in range(r2.randint(6, 14)))

        db0 = SynthDB(pages0, "en")
        for i, text in enumerate(seqs()):
            if i % desc["n"] != desc["shard"]:
                continue
            ok, res = judge(R, text, db0, pages0, "en", "program", use_clock=False)
            R.count("brace_sequences")
            R.case(h64("braces", text), "{{" in text and "}}" in text)
            if i % 7 == 0:
                pages = dict(pages0, u=text)
                judge(R, "{{u|x}}{{u}}", SynthDB(pages, "en"), pages, "en", "program", use_clock=False)
                R.count("brace_sequences_as_template_body")
        return
    if desc["kind"] == "expr":
        db = SynthDB({}, "en")
        for i, text in enumerate(expr_texts(random.Random("C03:expr:%s" % desc["seed"]), desc["random"])):
            if i % desc["n"] != desc["shard"]:
                continue
            ok, res = judge(R, text, db, {}, "en", "sweep")
            R.count("expr_calls")
            R.case(h64("en", text), True, sample={"site": "en", "text": text, "result": (res or "")[:80]} if ok else None)
        return
    # programs
    bodies = ["{{%s}}", "{{%s|{{{1}}}}}", "{{{1|%s}}}", "{{#if:{{{1|}}}|{{%s}}|x}}", "{{%s|a=b}}{{%s}}", "{{ %s", "%s }}",
              "{{{%s", "<noinclude>{{%s}}</noinclude>i", "<includeonly>{{%s}}</includeonly>", "<onlyinclude>{{%s}}</onlyinclude>",
              "<nowiki>{{%s}}</nowiki>", "{{#switch:{{{1}}}|a={{%s}}|#default={{%s|a}}}}", "{{#ifeq:{{%s}}|x|y|{{%s}}}}",
              "{{#expr:1+{{%s}}}}", "{{padleft:{{%s}}|5}}", "{{#tag:ref|{{%s}}}}", "{{:%s}}", "{{/%s}}", "{{%s|{{%s|{{%s}}}}}}",
              "[[{{%s}}|{{{1}}}]]", "{{{{{%s}}}}}", "{{#ifexpr:1|{{%s}}}}{{#ifexpr:1|{{%s}}}}", "{{lc:{{%s}}}}", "|}}{{", "="]
    keys = ["a", "b", "c", "d", "loop", "self"]
    for _ in range(desc["count"]):
        lang = rnd.choice(W.LANGS)
        pages = {}
        for k in rnd.sample(keys, rnd.randint(0, 6)):
            parts = []
            for _ in range(rnd.randint(1, 3)):
                b = rnd.choice(bodies)
                parts.append(b.replace("%s", "\0").replace("\0", "%s") % tuple(
                    rnd.choice(keys + ["missing", k]) for _ in range(b.count("%s"))))
                if rnd.random() < 0.3:
                    parts.append(W.soup(rnd, rnd.randint(1, 4)))
            pages[k] = " ".join(parts)
        b = rnd.choice(bodies)
        text = b % tuple(rnd.choice(keys) for _ in range(b.count("%s")))
        if rnd.random() < 0.4:
            text += W.soup(rnd, rnd.randint(1, 10))
        db = SynthDB(pages, lang)
        cyclic = any(("{{%s" % k) in v or ("{{:%s" % k) in v for k, v in pages.items())
        if cyclic:
            R.count("cyclic_universes")
        ok, res = judge(R, text, db, pages, lang, "program", use_clock=True)
        R.count("program_expansions")
        R.case(h64(lang, text, sorted(pages.items())), db.lookups > 0,
               sample={"text": text, "pages": pages, "result": (res or "")[:80]} if ok and len(pages) > 1 else None)


def replay(case):
    import logging
    logging.disable(logging.CRITICAL)
    import mwlib.parser.expander  # noqa
    from ..child import Recorder
    from ..gen.db import SynthDB
    if case.get("crumb"):
        import resource
        import sys
        case = json.loads(case["crumb"])
        print("re-running under RLIMIT_CPU=%d s; a kill reproduces the blow-up" % CASE_CPU)
        sys.stdout.flush()
        resource.setrlimit(resource.RLIMIT_CPU, (CASE_CPU, CASE_CPU + 5))
    install_watermark()
    R = Recorder()
    judge(R, case["text"], SynthDB(case.get("db") or {}, case["lang"]), case.get("db"), case["lang"],
          "sweep" if len(case.get("db") or {}) <= 1 else "program", use_clock=True)
    return [(v["key"], v["what"], v.get("detail")) for v in R.violations]
