"""C20 Output files appear atomically: a crash never leaves a partial file.

Fault enumeration at the system-call boundary with strace as the instrument:
(M1) offline checker over a recorded syscall trace of each producer (published path only ever appears as a
rename destination; the rename source was written only through descriptors closed before the rename);
(M2) the producer is re-run once per (syscall kind, ordinal) after the start marker with
inject=<kind>:signal=KILL:when=<n> - killed on entry to that call, so user-space buffers are lost - and a
reader then judges the published path (absent | complete old version | complete new version);
(M3) the same positions with error=ENOSPC / error=EIO; the trace of each such run is checked by (M1) as well, so an
error path that falls back to writing the published name in place is seen even when that write then succeeds;
(M4) "disk full after N bytes": the producer runs under RLIMIT_FSIZE=N set at the marker (real short write, then
EFBIG), N sampled between 1 byte and the size of the complete output.
"""
import json
import os
import random
import re
import shutil
import subprocess
import zipfile

from ..child import h64

ID = "C20"
LEVEL = "fault_enumeration"
KINDS = ["openat", "write", "close", "rename", "renameat", "renameat2", "unlink", "unlinkat", "ftruncate", "link",
         "linkat", "symlink", "pwrite64", "writev", "fsync", "fdatasync", "mkdir", "rmdir"]
ERR_KINDS = ["openat", "write", "close", "rename", "pwrite64", "writev"]
TRACE = "trace=" + ",".join(KINDS)
RULE = ("producers {status file (small and larger than the io buffer), ZipCreator.create_zip, make_zip and the mw-zip "
        "ZipBuilder path against the synthetic wiki, download_to_file, mw-render -w rl / -w odf}; for each: one traced "
        "run, then one run per (syscall kind, ordinal) after the start marker with SIGKILL injected on entry to that call, "
        "and with ENOSPC / EIO injected, each with and without a complete previous version at the published path; "
        "quick samples the positions of the long producers; non-trivial = the injected fault hit after the marker and "
        "before the producer finished; distinct = distinct (producer, fault, syscall kind, ordinal, old-version flag)")
ASSUMPTIONS = [
    "process-kill and I/O-error model only (no power loss / fsync ordering); one file system (the sandbox's)",
    "strace inject counters are per syscall kind; ordinals before the marker come from the traced run of the same "
    "producer under PYTHONHASHSEED=0 PYTHONDONTWRITEBYTECODE=1; a run that died before the marker is inconclusive",
    "sqlite journals and other private temporary files are not published paths",
]
REQUIRED = {"traces_checked": 4, "kill_runs": 100, "error_runs": 100, "size_limit_runs": 30, "error_path_traces_checked": 100, "faults_after_marker": 150,
            "reader_saw_old": 10, "reader_saw_new": 10, "reader_saw_absent": 10}
LEVEL_TEXT = ("Fault enumeration: every file-system call position of the short producers (status, zip, download) and a "
              "sample (quick) / all (thorough, capped) positions of the long ones (make_zip, mw-zip, mw-render) is hit "
              "with SIGKILL, ENOSPC and EIO by strace fault injection on the real code; a reader judges the published "
              "path after each run; an offline checker validates the traced rename protocol of the un-faulted run and "
              "of every error-injected run; a further fault model lets the disk fill up after N bytes (RLIMIT_FSIZE "
              "set at the marker: a real short write, then EFBIG).")
LEVEL_NOTE = "Trusts strace's injection and the per-format readers (JSON, zipfile.testzip, byte equality, pypdf, ODF zip+XML)."
TECHNIQUE = "syscall-trace checker + exhaustive crash/error injection (strace inject) and disk-full-after-N-bytes runs (RLIMIT_FSIZE) with a reader oracle on the published path"

LONGTITLE = "Lx" + "\xe9" * 49 + "abc.png"
LONGNAME = "Lx" + "~233~" * 49 + "abc.png"      # 254 bytes: the escaped file name of a long / non-ASCII image title
PRODUCERS = {          # name -> (published file, quick position cap, thorough cap)
    "status": ("out.json", None, None),
    "status_big": ("out.json", None, None),
    "zip": ("out.zip", None, None),
    "download": ("out.png", None, None),
    "makezip": ("out.zip", 16, 400),
    "mwzip": ("out.zip", 16, 400),
    "mwzip_keep": ("out.zip", 10, 200),
    "download_longname": (LONGNAME, None, None),
    "download_small": ("out.png", None, None),        # a body that fits one chunk, served with Content-Length
    "render": ("out.pdf", 10, 300),
    "render_odf": ("out.odt", 8, 200),
}


MAY_DECLINE = {"download_longname"}
SMALL_PAYLOAD = bytes(range(256)) + b"x" * 44


def plan(tier, seed):
    shards = []
    for name in PRODUCERS:
        shards.append({"kind": "trace+plan", "producer": name, "seed": seed, "tier": tier})
    return shards


# ---- environment ---------------------------------------------------------------------------------
def child_env():
    env = dict(os.environ)
    env["PYTHONHASHSEED"] = "0"
    env["PYTHONDONTWRITEBYTECODE"] = "1"
    return env


def prepare(producer, workdir, old):
    """inputs of the producer + optionally a complete previous version at the published path"""
    os.makedirs(workdir, exist_ok=True)
    out = os.path.join(workdir, PRODUCERS[producer][0])
    if producer == "zip":
        src = os.path.join(workdir, "src")
        os.makedirs(os.path.join(src, "images"))
        for n, data in (("nfo.json", b'{"format": "nuwiki"}'), ("revisions-1.txt", b"\n\x0c --page-- {}\ntext" * 200),
                        ("siteinfo.json", b"{}" * 3000), ("images/a.png", os.urandom(30000)), ("metabook.json", b"{}")):
            with open(os.path.join(src, n), "wb") as f:
                f.write(data)
    if producer in ("download", "download_longname", "download_small"):
        with open(os.path.join(workdir, "payload.bin"), "wb") as f:
            f.write(SMALL_PAYLOAD if producer == "download_small" else bytes(range(256)) * 100)
    if producer in ("makezip", "mwzip", "mwzip_keep"):
        with open(os.path.join(workdir, "wiki.json"), "w") as f:
            json.dump(WIKI_CASE, f)
    if producer in ("render", "render_odf"):
        shutil.copy(os.path.join(os.environ["VERIF_SCRATCH_DIR"], "c20-collection.zip"), os.path.join(workdir, "collection.zip"))
        if old:
            # what a render killed inside its external PDF-merge step leaves in the output directory
            with open(os.path.join(workdir, "final.pdf"), "wb") as f:
                f.write(b"%PDF-1.4\n1 0 obj\n<< /Type /Catalog >>\nendobj\n% killed here")
    if old:
        ext = out.rsplit(".", 1)[1]
        if ext == "json":
            with open(out, "w") as f:
                json.dump({"status": "OLD", "progress": 1}, f)
        elif ext in ("zip", "odt"):
            with zipfile.ZipFile(out, "w") as z:
                z.writestr("OLD.txt", "old version")
        elif ext == "png":
            with open(out, "wb") as f:
                f.write(b"OLDIMAGE" * 10)
        elif ext == "pdf":
            with open(out, "wb") as f:
                f.write(b"%PDF-OLD complete previous version\n%%EOF\n")
    return out


WIKI_CASE = {
    "pages": {"Art 1": [[11, "alpha old", "Ann", False], [12, "alpha new {{T1|x}} [[File:Img1.png|thumb|cap]]", "Bob", False]],
              "Art 2": [[21, "beta text [[Art 1]]", "Cat", False]],
              "Template:T1": [[31, "tpl({{{1|}}}) [[File:Img2.png|thumb|in T1]]", "Dan", False]],
              "File:Img1.png": [[41, "description one", "Eve", False]], "File:Img2.png": [[42, "description two", "Eve", False]]},
    "files": {"File:Img1.png": "local", "File:Img2.png": "shared"},
    "meta": {}, "metabook": [["Art 1", None], ["Art 2", None]], "api_request_limit": 5, "api_result_limit": 50,
    "noimages": False, "latency_seed": 1,
}


def reader(path):
    """('absent'|'old'|'new', None) or ('bad', why)"""
    if not os.path.lexists(path):
        return "absent", None
    ext = path.rsplit(".", 1)[1]
    try:
        if ext == "json":
            with open(path) as f:
                d = json.load(f)
            if not isinstance(d, dict):
                return "bad", "status file holds %r" % type(d).__name__
            return ("old" if d.get("status") == "OLD" else "new"), None
        if ext in ("zip", "odt"):
            with zipfile.ZipFile(path) as z:
                bad = z.testzip()
                if bad is not None:
                    return "bad", "corrupt member %r" % bad
                names = z.namelist()
                if names == ["OLD.txt"]:
                    return "old", None
                if ext == "zip":
                    if "nfo.json" not in names or not any(n.startswith("revisions") for n in names):
                        return "bad", "zip lacks nfo.json/revisions: %r" % names[:6]
                    json.loads(z.read("nfo.json"))
                else:
                    from lxml import etree
                    for n in ("content.xml", "styles.xml", "meta.xml"):
                        etree.fromstring(z.read(n))
                return "new", None
        if ext == "png":
            with open(path, "rb") as f:
                data = f.read()
            if data == b"OLDIMAGE" * 10:
                return "old", None
            if data in (bytes(range(256)) * 100, SMALL_PAYLOAD):
                return "new", None
            return "bad", "image has %d bytes, neither the old nor the complete new content" % len(data)
        if ext == "pdf":
            with open(path, "rb") as f:
                data = f.read()
            if data.startswith(b"%PDF-OLD"):
                return "old", None
            if not data.rstrip().endswith(b"%%EOF"):
                return "bad", "pdf of %d bytes does not end with %%%%EOF" % len(data)
            import pypdf
            n = len(pypdf.PdfReader(path).pages)
            if n < 1:
                return "bad", "pdf has no pages"
            return "new", None
    except Exception as e:
        return "bad", "%s: %s" % (type(e).__name__, str(e)[:100])
    return "bad", "unknown type"


# ---- strace ----------------------------------------------------------------------------------------
def run_limited(producer, workdir, limit, timeout=180):
    env = child_env()
    env["VERIF_FSIZE"] = str(limit)
    try:
        p = subprocess.run(["/venv/bin/python", "-m", "vlib.drivers.producers", producer, workdir], env=env, cwd="/verif",
                           stdout=subprocess.PIPE, stderr=subprocess.PIPE, timeout=timeout)
        return p.returncode, p.stderr.decode(errors="replace")[-1500:]
    except subprocess.TimeoutExpired:
        return None, "timeout"


def run_strace(producer, workdir, inject=None, log=None, timeout=180):
    cmd = ["strace", "-f", "-y", "-qq", "-e", TRACE, "-o", log or "/dev/null"]
    if inject:
        cmd += ["-e", "inject=" + inject]
    cmd += ["/venv/bin/python", "-m", "vlib.drivers.producers", producer, workdir]
    try:
        p = subprocess.run(cmd, env=child_env(), cwd="/verif", stdout=subprocess.PIPE, stderr=subprocess.PIPE, timeout=timeout)
        return p.returncode, p.stderr.decode(errors="replace")[-1500:]
    except subprocess.TimeoutExpired:
        return None, "timeout"


LINE = re.compile(r"^(\d+) +(\w+)\((.*)$")


def parse_log(path):
    """list of (pid, name, rest) in order"""
    out = []
    with open(path, errors="replace") as f:
        for line in f:
            m = LINE.match(line)
            if m and "<unfinished" not in line:
                out.append((m.group(1), m.group(2), m.group(3)))
            elif "resumed>" in line:
                m2 = re.match(r"^(\d+) +<\.\.\. (\w+) resumed>(.*)$", line)
                if m2:
                    out.append((m2.group(1), m2.group(2), m2.group(3)))
    return out


def split_at_marker(calls):
    for i, (_, name, rest) in enumerate(calls):
        if "__VERIF_MARK__" in rest:
            return calls[:i + 1], calls[i + 1:]
    return calls, []


def trace_check(calls_after, published):
    """(M1) rename protocol on the published path; returns list of (key, what)"""
    out = []
    open_fds = {}      # path -> list of open write fds (as strings)
    reused = set()     # paths opened for writing without O_TRUNC / O_EXCL: content of an earlier, crashed run survives
    for pid, name, rest in calls_after:
        if name in ("openat", "creat"):
            m = re.search(r'"([^"]*)", ([A-Z_|0-9]+)', rest)
            if not m:
                continue
            path, flags = m.group(1), m.group(2)
            writing = any(f in flags for f in ("O_WRONLY", "O_RDWR", "O_TRUNC", "O_CREAT", "O_APPEND"))
            if os.path.abspath(path) == published and writing and "= -1" not in rest:
                out.append(("trace:published-path-opened-for-writing", "openat(%r, %s) on the published path" % (path, flags)))
            fd = re.search(r"= (\d+)<", rest)
            if writing and fd:
                open_fds.setdefault(os.path.abspath(path), []).append(fd.group(1))
                if "O_TRUNC" not in flags and "O_EXCL" not in flags:
                    reused.add(os.path.abspath(path))
        elif name in ("write", "pwrite64", "writev", "ftruncate"):
            m = re.match(r"(\d+)<([^>]*)>", rest)
            if m and os.path.abspath(m.group(2)) == published:
                out.append(("trace:published-path-written-in-place", "%s on the published path" % name))
        elif name == "close":
            m = re.match(r"(\d+)<([^>]*)>", rest)
            if m:
                lst = open_fds.get(os.path.abspath(m.group(2)), [])
                if m.group(1) in lst:
                    lst.remove(m.group(1))
        elif name in ("rename", "renameat", "renameat2"):
            ps = re.findall(r'"([^"]*)"', rest)
            if len(ps) >= 2 and os.path.abspath(ps[-1]) == published and "= 0" in rest:
                src = os.path.abspath(ps[0] if name == "rename" else ps[-2])
                if src in reused:
                    out.append(("trace:temp-opened-without-truncation", "the file renamed onto the published path (%r) was opened for "
                                "writing without O_TRUNC/O_EXCL: what a crashed earlier run left in it stays behind the new content" % src))
                if open_fds.get(src):
                    out.append(("trace:renamed-before-writer-closed", "rename(%r -> published path) while descriptor(s) %s on the source are still open" % (
                        src, open_fds[src])))
        elif name in ("link", "linkat", "symlink", "symlinkat"):
            ps = re.findall(r'"([^"]*)"', rest)
            if ps and os.path.abspath(ps[-1]) == published:
                out.append(("trace:published-path-linked", "%s creates the published path" % name))
    return out


def positions(calls_before, calls_after, kinds):
    """[(kind, absolute ordinal)] for every call of the given kinds after the marker"""
    before = {}
    for _, name, _ in calls_before:
        before[name] = before.get(name, 0) + 1
    out = []
    seen = {}
    for _, name, rest in calls_after:
        if name in kinds:
            seen[name] = seen.get(name, 0) + 1
            out.append((name, before.get(name, 0) + seen[name], rest[:80]))
    return out


# ---- shard -------------------------------------------------------------------------------------------
def make_collection(scratch):
    """a small collection zip for the render producers (built once per shard process)"""
    path = os.path.join(scratch, "c20-collection.zip")
    if os.path.exists(path):
        return path
    import logging
    logging.disable(logging.CRITICAL)
    from mwlib.apps.buildzip import zip_dir
    from mwlib.core import metabook
    from mwlib.network import fetch
    from mwlib.network.siteinfo import get_siteinfo
    d = os.path.join(scratch, "c20-coll-%d" % os.getpid())
    fs = fetch.FsOutput(d)
    fs.write_siteinfo(get_siteinfo("en"))
    mb = metabook.Collection(title="Book")
    mb.append_article("Alpha")
    mb.append_article("Beta")        # two articles: the rl writer also builds a table of contents and merges it in
    fs.dump_json(metabook=mb)
    fs.nfo = {"format": "nuwiki", "base_url": "http://w.test/w/", "script_extension": ".php"}
    fs.write_pages({"pages": {"1": {"title": "Alpha", "ns": 0, "revisions": [{"revid": 5, "*": "== Head ==\nalpha ''text'' here\n* item one\n* item two\n"}]},
                              "2": {"title": "Beta", "ns": 0, "revisions": [{"revid": 6, "*": "== Second ==\nbeta text\n"}]}}})
    fs.write_redirects({})
    fs.write_licenses([])
    fs.write_authors()
    fs.write_html()
    fs.imageinfo.close()
    fs.close()
    tmp = path + ".%d.tmp" % os.getpid()
    zip_dir(d, tmp)
    os.replace(tmp, path)
    shutil.rmtree(d, ignore_errors=True)
    return path


def run_shard(desc, R):
    from concurrent.futures import ThreadPoolExecutor
    scratch = os.environ["VERIF_SCRATCH_DIR"]
    producer = desc["producer"]
    published_name, qcap, tcap = PRODUCERS[producer]
    cap = qcap if desc["tier"] == "quick" else tcap
    if producer in ("render", "render_odf"):
        make_collection(scratch)
    base = os.path.join(scratch, "c20-%s" % producer)
    # ---- traced run (M1) ------------------------------------------------------------------------
    wd = base + "-trace"
    out = prepare(producer, wd, old=False)
    log = wd + ".strace"
    rc, err = run_strace(producer, wd, log=log)
    if rc != 0:
        R.violation("producer-fails-without-fault:" + producer, "un-faulted producer exited %r: %s" % (rc, err[-300:]), {"producer": producer})
        return
    calls = parse_log(log)
    before, after = split_at_marker(calls)
    if not after:
        R.inconc("no marker in trace of %s" % producer)
        return
    state, why = reader(out)
    if state == "absent" and producer in MAY_DECLINE:
        # the producer declined (the temporary name does not fit the file system): nothing may have touched the name
        R.count("traces_checked")
        R.count("producer_declined_cleanly")
        for key, what in trace_check(after, os.path.abspath(out)):
            R.violation(key + ":" + producer, what, {"producer": producer, "trace": True})
        R.case(h64("trace", producer), True)
        shutil.rmtree(wd, ignore_errors=True)
        return
    if state != "new":
        R.violation("reader-rejects-unfaulted-output:" + producer, "after an un-faulted run the published path is %s (%s)" % (state, why), {"producer": producer})
        return
    final_size = os.path.getsize(out)
    R.count("traces_checked")
    R.count("syscalls_traced", len(after))
    for key, what in trace_check(after, os.path.abspath(out)):
        R.violation(key + ":" + producer, what, {"producer": producer, "trace": True})
    R.case(h64("trace", producer), True, sample={"producer": producer, "syscalls_after_marker": len(after),
                                                 "first": ["%s(%s" % (n, r[:60]) for _, n, r in after[:6]]})
    shutil.rmtree(wd, ignore_errors=True)
    # ---- plan of fault positions ------------------------------------------------------------------
    kill_pos = positions(before, after, set(KINDS))
    err_pos = positions(before, after, set(ERR_KINDS))
    rnd = random.Random("C20:%s:%s" % (desc["seed"], producer))
    if cap is not None and len(kill_pos) > cap:
        # keep the calls that touch the published file or its temporaries, sample the rest
        keep = [p for p in kill_pos if "out." in p[2] or p[0] in ("rename", "renameat", "renameat2", "unlink", "unlinkat")]
        rest = [p for p in kill_pos if p not in keep]
        kill_pos = keep[:cap] + rnd.sample(rest, max(0, min(len(rest), cap - len(keep[:cap]))))
    if cap is not None and len(err_pos) > cap:
        keep = [p for p in err_pos if "out." in p[2] or p[0] == "rename"]
        rest = [p for p in err_pos if p not in keep]
        err_pos = keep[:cap] + rnd.sample(rest, max(0, min(len(rest), cap - len(keep[:cap]))))
    jobs = []
    for old in (False, True):
        for kind, n, _ in kill_pos:
            jobs.append(("KILL", kind, n, old))
        for kind, n, _ in err_pos:
            for errno in ("ENOSPC", "EIO"):
                if cap is not None and rnd.random() < 0.5:
                    continue
                jobs.append((errno, kind, n, old))
    sizes = sorted({v for v in (1, 100, 512, 4095, 4096, 8192, 16384, 65536, final_size // 3, final_size // 2,
                                final_size - 4097, final_size - 100, final_size - 1) if 0 < v < final_size})
    if cap is not None:
        sizes = sorted(rnd.sample(sizes, min(len(sizes), 5)) + [s for s in (final_size - 100,) if s > 0])
    for old in (False, True):
        for v in sizes:
            jobs.append(("FSIZE", "limit", v, old))
    R.count("positions_planned_" + producer, len(jobs))

    def one(i_job):
        i, (fault, kind, n, old) = i_job
        wdir = "%s-%d" % (base, i)
        outp = prepare(producer, wdir, old)
        if fault == "FSIZE":
            rc, err = run_limited(producer, wdir, n)
            state, why = reader(outp)
            shutil.rmtree(wdir, ignore_errors=True)
            # the limit bit iff the producer did not end with the complete new version
            return (fault, kind, n, old, rc, rc != 0 or state != "new", state, why, [])
        inj = "%s:signal=KILL:when=%d" % (kind, n) if fault == "KILL" else "%s:error=%s:when=%d" % (kind, fault, n)
        lg = wdir + ".strace"
        rc, err = run_strace(producer, wdir, inject=inj, log=lg)
        hit_after_marker = False
        died_at = None
        tfind = []
        try:
            cs = parse_log(lg)
            b, a = split_at_marker(cs)
            hit_after_marker = bool(a) or any("__VERIF_MARK__" in r for _, _, r in b[-1:])
            if fault == "KILL":
                died_at = "%s#%d" % (kind, n)
            else:
                hit_after_marker = any(("(INJECTED)" in r) for _, _, r in a)
                if hit_after_marker:
                    tfind = trace_check(a, os.path.abspath(outp))
        except OSError:
            pass
        state, why = reader(outp)
        shutil.rmtree(wdir, ignore_errors=True)
        try:
            os.unlink(lg)
        except OSError:
            pass
        return (fault, kind, n, old, rc, hit_after_marker, state, why, tfind)

    with ThreadPoolExecutor(max_workers=4) as ex:
        results = list(ex.map(one, list(enumerate(jobs))))
    for fault, kind, n, old, rc, hit, state, why, tfind in results:
        case = {"producer": producer, "fault": fault, "syscall": kind, "ordinal": n, "old_version_present": old}
        if rc is None:
            R.inconc("timeout %r" % (case,))
            continue
        R.count({"KILL": "kill_runs", "FSIZE": "size_limit_runs"}.get(fault, "error_runs"))
        for k, w in tfind:
            R.count("error_path_traces_with_finding")
            R.violation("after-io-error:" + k + ":" + producer, "after %s at %s #%d: %s" % (fault, kind, n, w), case)
        if fault not in ("KILL", "FSIZE"):
            R.count("error_path_traces_checked")
        if hit:
            R.count("faults_after_marker")
            R.seen("death_points", "%s:%s:%s#%d" % (producer, fault, kind, n))
        R.case(h64(json.dumps(case, sort_keys=True)), hit, sample=case if fault == "KILL" else None)
        R.count("reader_saw_" + state)
        if state == "bad":
            key = "partial-file:%s:%s:%s" % (producer, {"KILL": "kill", "FSIZE": "disk-full-after-n-bytes"}.get(fault, "io-error"), kind)
            R.violation(key, "after %s at %s #%d (old version %s) the published path is not absent/old/new: %s" % (
                fault, kind, n, "present" if old else "absent", why), case)
        elif state == "absent" and old:
            R.violation("old-version-lost:%s:%s:%s" % (producer, {"KILL": "kill", "FSIZE": "disk-full-after-n-bytes"}.get(fault, "io-error"), kind),
                        "after %s at %s #%d the complete previous version is gone and no new one is there" % (fault, kind, n), case)


def replay(case):
    scratch = os.environ["VERIF_SCRATCH_DIR"]
    producer = case["producer"]
    if producer in ("render", "render_odf"):
        make_collection(scratch)
    wd = os.path.join(scratch, "c20-replay")
    out = prepare(producer, wd, case.get("old_version_present", False))
    if case.get("trace"):
        log = wd + ".strace"
        run_strace(producer, wd, log=log)
        b, a = split_at_marker(parse_log(log))
        return [(k + ":" + producer, w, None) for k, w in trace_check(a, os.path.abspath(out))]
    fault, kind, n = case["fault"], case["syscall"], case["ordinal"]
    tf = []
    if fault == "FSIZE":
        rc, err = run_limited(producer, wd, n)
    else:
        inj = "%s:signal=KILL:when=%d" % (kind, n) if fault == "KILL" else "%s:error=%s:when=%d" % (kind, fault, n)
        log = wd + ".strace"
        rc, err = run_strace(producer, wd, inject=inj, log=log)
        if fault != "KILL":
            b, a = split_at_marker(parse_log(log))
            tf = [("after-io-error:" + k + ":" + producer, w, None) for k, w in trace_check(a, os.path.abspath(out))]
    state, why = reader(out)
    print("producer exit %r; published path is %s (%s)" % (rc, state, why))
    return tf + ([("partial-file:%s" % producer, why, None)] if state == "bad" else [])
