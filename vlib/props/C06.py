"""C06 - see DESIGN.md section 4; shared workload in treecommon.py."""
from . import treecommon

ID = "C06"
LEVEL = "exploration"
CASE_CPU = treecommon.CASE_CPU


def plan(tier, seed):
    return treecommon.plan(ID, tier, seed)


def run_shard(desc, R):
    return treecommon.run_shard(ID, desc, R)


def replay(case):
    return treecommon.replay(ID, case)

RULE = ("same inputs as C05; every cleaner pass is invoked directly as getattr(TreeCleaner(tree), name)(tree) in "
        "cleaner_methods order under a step budget of 1e6 + 2000*nodes*depth logical steps, any exception or budget "
        "overrun is a violation; additionally clean_all() (the deployed driver) runs on a second tree of the same "
        "input and its ERROR: reports are counted; after fix_nesting / fix_paragraphs one more step of the pass's own "
        "repair function must find nothing left (fixed point); inputs include one shape repeated 101-260 times and "
        "runs of 1100-1500 textless inline siblings; non-trivial = tree has >=4 node classes; distinct = distinct (text, language)")
ASSUMPTIONS = [
    "'reaches its fixed point' is read as: the pass's own loops terminate within the step budget (re-applying a pass "
    "need not be a no-op)",
    "a RecursionError on a tree deeper than 60 levels is outside the input space (counted, not reported)",
]
REQUIRED = {"pass_calls": 20000, "pass_fired": 2000, "clean_all_runs": 500}
LEVEL_TEXT = ("Exploration: each of the 57 pass applications runs directly (no catch-all) under a deterministic step "
              "budget on 7e3 (quick) / 4e5 (thorough) generated trees including documents built to switch every pass "
              "on; the evidence lists which passes fired (changed the tree).")
LEVEL_NOTE = "Passes that never fire on the generated inputs are listed in the evidence; C-level blow-ups are caught by the CPU supervisor."
TECHNIQUE = "runtime boundary monitor per cleaner pass (exception + sys.monitoring step budget + fixed-point probe) over trigger, repeated-shape, fuzzed and grammar documents"
