"""Shared shard runner for the queue-server properties C16, C17, C18."""
import json
import random

from ..child import h64

ALPHABETS = {
    # C16's alphabet, as the quantifier lists it
    # (add with an explicit id includes adding an id again: a new job only if the old one was killed)
    "C16": {"ticks": (60, 200), "readd": 1},
    # extended with wait / re-add / stats (+ finish by a third party, info updates)
    "C17": {"ticks": (60, 200, 4000), "finx": 1, "readd": 1, "readdx": 1, "wait": 1, "addwait": 1, "setinfo": 1,
            "addauto": 1},
    # restart with and without downtime (the clock moves while the server is stopped)
    "C18": {"ticks": (60, 200), "finx": 1, "readd": 1, "wait": 1, "restart": 1, "addauto": 1,
            "downtimes": (100,)},
}


def plan(prop, tier, seed):
    n = 16
    if tier == "quick":
        depth, nrand, rlen = {"C16": 4, "C17": 3, "C18": 3}[prop], 2500, (6, 12)
    else:
        depth, nrand, rlen = {"C16": 6, "C17": 5, "C18": 5}[prop], 150000, (8, 14)
    shards = [{"kind": "dfs", "shard": i, "n": n, "depth": depth, "seed": seed, "prune": tier == "thorough"}
              for i in range(n)]
    shards += [{"kind": "random", "shard": i, "count": nrand, "len": rlen, "seed": seed} for i in range(n)]
    if prop == "C16":
        # real sockets, real qserve process, OS-scheduled client threads (O1 only)
        k = 4 if tier == "quick" else 16
        shards += [{"kind": "tcp", "shard": i, "seed": seed, "runs": 1 if tier == "quick" else 12,
                    "workers": 6 if tier == "quick" else 16, "jobs_each": 40 if tier == "quick" else 300} for i in range(k)]
    if prop == "C18":
        # the real Main.run loop stopped in every way it can end, several stop/start cycles on one data directory
        shards += [{"kind": "lifecycle", "shard": i, "seed": seed, "runs": 6 if tier == "quick" else 150} for i in range(4)]
    return shards


def _report(prop, R, res, ops, choices, probes):
    obs = res["obs"]
    for k, v in obs.items():
        if v:
            R.count("obs_" + k, v)
    R.count("histories_checked")
    R.count("events_observed", res["events"])
    nontrivial = obs["handoffs"] + obs["nonblocking_pulls"] > 0
    R.case(h64(json.dumps(ops), choices), nontrivial,
           sample={"ops": ops, "choices": list(choices), "drained": res["drained"]})
    for (p, key, what) in res["findings"]:
        case = {"ops": ops, "choices": list(choices), "probes": probes}
        if p == prop or p == "ENGINE":
            R.violation(("engine:" if p == "ENGINE" else "") + key, what, case,
                        detail=json.dumps(res.get("snapshot"), default=str))
        else:
            R.count("findings_belonging_to_" + p)
            R.seen("cross_findings", "%s %s :: %s :: %s" % (p, key, json.dumps(ops), list(choices)))


def run_history(prop, R, ops, choices, A, probes, lenient=False, want_enabled=None):
    from ..mon import qsched
    res = qsched.execute(ops, choices=choices, probes=probes, want_enabled=want_enabled, lenient=lenient)
    if "disabled" in res:
        return res
    ops = res["ops"]
    if prop == "C18":
        # control: the same history without the restart; only differences count for C18
        if any(o[0] == "restart" for o in ops):
            ctl_ops = [(["advance", o[1]] if o[0] == "restart" else o) for o in ops
                       if o[0] != "restart" or (len(o) > 1 and o[1])]
            ctl = qsched.execute(ctl_ops, choices=choices, probes=probes, lenient=True)
            ctl_keys = {(p, k) for (p, k, _) in ctl.get("findings", [])}
            own = [(("C18", "after-restart:" + k, w) if p != "ENGINE" else (p, k, w))
                   for (p, k, w) in res["findings"] if (p, k) not in ctl_keys]
            R.count("control_histories")
            if len(own) != len(res["findings"]):
                R.count("findings_also_without_restart", len(res["findings"]) - len(own))
            res["findings"] = own
        else:
            res["findings"] = [f for f in res["findings"] if f[0] == "ENGINE"]
    _report(prop, R, res, ops, choices, probes)
    # every choice among eligible blocked workers
    sizes = res["choice_sizes"]
    if not choices and any(s > 1 for s in sizes):
        import itertools
        alts = [range(s) for s in sizes[:4]]
        for vec in itertools.islice(itertools.product(*alts), 1, 24):
            r2 = qsched.execute(ops, choices=list(vec), probes=probes, lenient=lenient)
            if "disabled" in r2:
                continue
            if prop == "C18":
                continue
            R.count("choice_variants")
            _report(prop, R, r2, ops, list(vec), probes)
    return res


def run_shard(prop, desc, R):
    from ..mon import qsched
    A = ALPHABETS[prop]
    probes = prop in ("C17", "C18")
    if desc["kind"] == "tcp":
        from ..mon import qtcp
        rnd = random.Random("%s:tcp:%s:%s" % (prop, desc["seed"], desc["shard"]))
        for _ in range(desc["runs"]):
            s = rnd.getrandbits(32)
            findings, obs = qtcp.stress(s, nproducers=3, nworkers=desc["workers"], jobs_each=desc["jobs_each"])
            for k, v in obs.items():
                R.count(k, v)
            R.count("tcp_stress_runs")
            R.case(h64("tcp", s), obs.get("tcp_rehandouts", 0) > 0, sample={"tcp_seed": s, "obs": obs})
            for key, what in findings:
                R.violation(key, what, {"tcp_seed": s, "workers": desc["workers"], "jobs_each": desc["jobs_each"]})
        return
    if desc["kind"] == "lifecycle":
        from ..mon import qlifecycle
        rnd = random.Random("%s:life:%s:%s" % (prop, desc["seed"], desc["shard"]))
        for _ in range(desc["runs"]):
            s = rnd.getrandbits(32)
            findings, obs = qlifecycle.lifecycle(s, cycles=4)
            for k, v in obs.items():
                R.count(k, v)
            R.case(h64("lifecycle", s), obs.get("lifecycle_cycles", 0) >= 2, sample={"lifecycle_seed": s, "obs": obs})
            for key, what in findings:
                R.violation(key, what, {"lifecycle_seed": s})
        return
    if desc["kind"] == "random":
        rnd = random.Random("%s:%s:%s" % (prop, desc["seed"], desc["shard"]))
        for _ in range(desc["count"]):
            ops = qsched.random_history(rnd, A, rnd.randint(*desc["len"]), 4)
            if prop == "C18" and not any(o[0] == "restart" for o in ops):
                ops.insert(rnd.randint(1, len(ops)), ["restart"])
            choices = [rnd.randint(0, 2) for _ in range(6)]
            run_history(prop, R, ops, choices, A, probes, lenient=True)
        return
    # exhaustive DFS by prefix replay; shards split the tree at depth 2
    depth, n, sh = desc["depth"], desc["n"], desc["shard"]
    seen = set()
    counter = [0]

    def dfs(prefix):
        res = run_history(prop, R, prefix, [], A, probes, want_enabled=A)
        if "disabled" in res:
            return
        R.count("dfs_nodes")
        if len(prefix) >= depth:
            return
        if desc.get("prune") and len(prefix) >= 3:
            key = (res["sig"], depth - len(prefix))
            if key in seen:
                R.count("dfs_pruned_states")
                return
            seen.add(key)
        R.seen("impl_states", h64(res["sig"]))
        for op in res["enabled"]:
            if len(prefix) == 1:
                counter[0] += 1
                if counter[0] % n != sh:
                    continue
            dfs(prefix + [op])

    if sh == 0:
        run_history(prop, R, [], [], A, probes)
    root = qsched.execute([], want_enabled=A)
    for op in root["enabled"]:
        # depth-1 histories are checked by every shard's DFS entry only once (shard 0)
        if sh == 0:
            run_history(prop, R, [op], [], A, probes)
        r1 = qsched.execute([op], want_enabled=A)
        if "disabled" in r1 or depth < 2:
            continue
        for op2 in r1["enabled"]:
            counter[0] += 1
            if counter[0] % n != sh:
                continue
            dfs([op, op2])
    R.count("dfs_depth_%d_complete" % depth)


def replay(prop, case):
    if "lifecycle_seed" in case:
        from ..mon import qlifecycle
        findings, obs = qlifecycle.lifecycle(case["lifecycle_seed"], cycles=4)
        print(obs)
        return [(k, w, None) for k, w in findings]
    if "tcp_seed" in case:
        from ..mon import qtcp
        findings, obs = qtcp.stress(case["tcp_seed"], nproducers=3, nworkers=case["workers"], jobs_each=case["jobs_each"])
        print(obs)
        return [(k, w, None) for k, w in findings]
    from ..mon import qsched
    res = qsched.execute(case["ops"], choices=case.get("choices", ()), probes=case.get("probes", False),
                         lenient=True)
    out = []
    for (p, key, what) in res.get("findings", []):
        out.append((key, "[%s] %s" % (p, what), json.dumps(res.get("snapshot"), default=str)))
    return out
