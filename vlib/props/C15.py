"""C15 Opening a collection archive never writes outside its extraction directory.

Monitors: (M1) filesystem diff of a sandbox around nuwiki.extractall; (M2) audit hook that records -
and refuses - every write-open / mkdir / rename / symlink outside the destination while armed;
(M3) an archive with an escaping member (judged by an independent path resolver) must raise.
"""
import itertools
import json
import os
import random
import shutil
import sys
import zipfile

from ..child import h64

ID = "C15"
LEVEL = "exploration"
COMPONENTS = ["..", ".", "", "a", "b.txt", "dst", "dst-evil", "dstX"]
RULE = ("member names built from components %r joined with '/' and '\\\\', relative and absolute (also absolute "
        "paths of sandbox decoys), every name to depth 3 (quick) / 5 (thorough; separators sampled), as "
        "single-member archives and in random multi-member archives with directory entries; destination given "
        "plain, with trailing separator, relative, and containing '..'; also through nuwiki.Adapt(ZipFile) and "
        "wiki.make_wiki() on nuwiki and multi-nuwiki archives; optionally after an earlier extraction into a "
        "sibling directory in the same process; "
        "non-trivial = name contains '..', is absolute, or names a decoy; distinct = distinct (member list, dst form)"
        % (COMPONENTS,))
ASSUMPTIONS = [
    "POSIX path semantics (backslash is an ordinary character); zip members are regular files/directories",
    "the audit hook sees every file creation CPython performs (open, os.mkdir, os.rename, os.symlink, os.link)",
]
REQUIRED = {"extractions": 500, "escaping_archives": 100, "escaping_rejected": 100, "benign_extracted": 100,
            "audit_events_inside": 100}
LEVEL_TEXT = ("Exploration with a bounded-exhaustive part: every member name of the quantifier's component set to "
              "depth 3 (quick) / 5 (thorough) is extracted by the real nuwiki.extractall inside a sandbox; a "
              "filesystem diff and an audit-hook recorder decide 'nothing outside dst', an independent resolver "
              "decides which archives must be rejected (an escaping member written under another name inside the "
              "destination counts as not rejected).")
LEVEL_NOTE = "Trusts the audit hook's coverage of file-creating calls and the 15-line reference path resolver."
TECHNIQUE = "runtime monitor: filesystem diff + sys.addaudithook write recorder around the real extraction, bounded-exhaustive member names"

_state = {"armed": False, "root": None, "dst": None, "outside": [], "inside": 0}


def _hook(event, args):
    if not _state["armed"]:
        return
    path = None
    if event == "open":
        p, mode, flags = args
        if isinstance(p, int):
            return
        writing = (isinstance(mode, str) and any(c in mode for c in "wax+")) or \
                  (isinstance(flags, int) and flags & (os.O_WRONLY | os.O_RDWR | os.O_CREAT | os.O_TRUNC))
        if not writing:
            return
        path = p
    elif event in ("os.mkdir", "os.remove", "os.rmdir", "os.truncate", "os.chmod"):
        path = args[0]
    elif event in ("os.rename", "os.symlink", "os.link"):
        for p in args[:2]:
            _judge(event, p)
        return
    else:
        return
    _judge(event, path)


def _judge(event, path):
    if isinstance(path, bytes):
        path = os.fsdecode(path)
    if not isinstance(path, str):
        return
    rp = os.path.realpath(path)
    dst = _state["dst"]
    if rp == dst or rp.startswith(dst + os.sep):
        _state["inside"] += 1
        return
    _state["outside"].append((event, path))
    # refuse: a broken extractor must not litter the real file system
    raise PermissionError("verif audit hook: write outside destination refused: %s %r" % (event, path))


_installed = []


def install_hook():
    if not _installed:
        sys.addaudithook(_hook)
        _installed.append(1)


def ref_escapes(absdst, name):
    """independent resolver: does dst/name resolve outside dst?  (POSIX semantics)"""
    base = [c for c in absdst.split("/") if c]
    if name.startswith("/"):
        stack = []
    else:
        stack = list(base)
    for comp in name.split("/"):
        if comp in ("", "."):
            continue
        if comp == "..":
            if stack:
                stack.pop()
            continue
        stack.append(comp)
    return stack[: len(base)] != base or len(stack) < len(base)


def snapshot(root, exclude):
    out = {}
    for d, dirs, files in os.walk(root):
        if d == exclude or d.startswith(exclude + os.sep):
            dirs[:] = []
            continue
        out[d] = "dir"
        for f in files:
            p = os.path.join(d, f)
            st = os.lstat(p)
            with open(p, "rb") as fh:
                out[p] = (st.st_size, st.st_mtime_ns, fh.read(64))
    return out


def names_of_depth(d, rnd=None, all_seps=True):
    for comps in itertools.product(COMPONENTS, repeat=d):
        if d == 1:
            seps = [()]
        elif all_seps:
            seps = itertools.product("/\\", repeat=d - 1)
        else:
            seps = [tuple(rnd.choice("/\\") for _ in range(d - 1)), tuple("/" for _ in range(d - 1))]
        for sp in seps:
            name = comps[0]
            for s, c in zip(sp, comps[1:]):
                name += s + c
            yield name


def plan(tier, seed):
    n = 16
    depth = 3 if tier == "quick" else 5
    shards = [{"kind": "enum", "shard": i, "n": n, "depth": depth, "seed": seed} for i in range(n)]
    shards += [{"kind": "multi", "shard": i, "count": 150 if tier == "quick" else 6000, "seed": seed} for i in range(n)]
    return shards


def one_archive(R, sandbox, members, dstform, via, idx, prelude=None):
    """build the archive, extract with the real code under the monitors"""
    from mwlib.core import nuwiki
    S = os.path.join(sandbox, "s%d" % idx)
    os.makedirs(os.path.join(S, "dst-evil"))
    os.makedirs(os.path.join(S, "outside"))
    if prelude:
        # an earlier, harmless extraction in the same process into a sibling directory (what it leaves behind -
        # directories, caches - must not help a later archive out of its own destination)
        p0 = os.path.join(S, "outside", "pre.zip")
        with zipfile.ZipFile(p0, "w") as zf0:
            for m in prelude:
                zf0.writestr(m, b"earlier:" + m.encode())
        with zipfile.ZipFile(p0) as zf0:
            nuwiki.extractall(zf0, os.path.join(S, "dst0"))
        R.count("preludes_extracted")
    for p in ("dstX", "parent.txt", "dst-evil/keep.txt", "outside/keep.txt"):
        with open(os.path.join(S, p), "w") as f:
            f.write("decoy " + p)
    dst = os.path.join(S, "dst")
    os.makedirs(dst)
    zpath = os.path.join(S, "outside", "in.zip")
    realmembers = []
    with zipfile.ZipFile(zpath, "w") as zf:
        if via.startswith("make_wiki"):
            # the wiki.make_wiki() entry point looks at nfo.json first
            zf.writestr("nfo.json", json.dumps({"format": "multi-nuwiki" if via.endswith("multi") else "nuwiki"}))
            zf.writestr("metabook.json", "{}")
        for m in members:
            name = m.replace("$S", S)
            zi = zipfile.ZipInfo(name)
            zi.filename = name   # keep the raw name (ZipInfo normalises some forms)
            zf.writestr(zi, b"" if name.endswith("/") else b"payload:" + name.encode("utf-8", "replace"))
            realmembers.append(name)
    before = snapshot(S, dst)
    absdst = os.path.realpath(dst)
    must_reject = any(ref_escapes(absdst, m) for m in realmembers)
    cwd = os.getcwd()
    os.chdir(S)
    arg = {"plain": dst, "slash": dst + os.sep, "rel": "dst", "dotdot": os.path.join(S, "dst", "..", "dst"),
           "relslash": "./dst/"}[dstform]
    raised = None
    _state.update(armed=True, dst=absdst, outside=[], inside=0)
    try:
        zf = zipfile.ZipFile(zpath)
        if via == "extractall":
            nuwiki.extractall(zf, arg)
        elif via.startswith("make_wiki"):
            from mwlib.core import wiki
            orig = nuwiki.tempfile.mkdtemp
            nuwiki.tempfile.mkdtemp = lambda *a, **k: dst     # (wiki.tempfile is the same module object)
            try:
                wiki.make_wiki(zpath)
            finally:
                nuwiki.tempfile.mkdtemp = orig
        else:
            # Adapt extracts into tempfile.mkdtemp(): make that the monitored destination
            orig = nuwiki.tempfile.mkdtemp
            nuwiki.tempfile.mkdtemp = lambda *a, **k: dst
            try:
                nuwiki.Adapt(zf)
            finally:
                nuwiki.tempfile.mkdtemp = orig
    except BaseException as e:     # noqa: the verdict is about the file system
        raised = e
    finally:
        _state["armed"] = False
        os.chdir(cwd)
        try:
            zf.close()
        except Exception:
            pass
    after = snapshot(S, dst)
    R.count("extractions")
    R.count("audit_events_inside", _state["inside"])
    case = {"members": members, "dst": dstform, "via": via, "prelude": prelude}
    nontrivial = any((".." in m) or m.startswith("/") or m.startswith("$S") or "dst-evil" in m or "dstX" in m
                     for m in members)
    R.case(h64(members, dstform, via), nontrivial, sample=case)
    if after != before:
        diff = sorted(set(after.items()) ^ set(before.items()), key=str)[:6]
        R.violation("fsdiff:outside-dst-changed", "files outside the destination changed: %r" % (diff,), case)
    if _state["outside"]:
        R.violation("audit:write-outside-dst", "write attempted outside the destination: %r" % (_state["outside"][:4],), case)
    if must_reject:
        R.count("escaping_archives")
        # rejected means: not extracted under any name - also not under a "sanitised" one inside the destination
        esc = {b"payload:" + m.encode("utf-8", "replace") for m in realmembers if ref_escapes(absdst, m) and not m.endswith("/")}
        landed = []
        for d, _, files in os.walk(dst):
            for f in files:
                try:
                    with open(os.path.join(d, f), "rb") as fh:
                        if fh.read(4096) in esc:
                            landed.append(os.path.relpath(os.path.join(d, f), dst))
                except OSError:
                    pass
        if landed:
            R.violation("escaping-member-extracted-under-another-name",
                        "an escaping member was not rejected but written inside the destination as %r" % (landed[:3],), case)
        if raised is None:
            R.violation("escape-not-rejected", "archive with an escaping member was extracted without error", case)
        else:
            R.count("escaping_rejected")
    elif raised is None:
        R.count("benign_extracted")
    else:
        R.count("benign_rejected")
        R.seen("benign_rejected_kinds", type(raised).__name__)
    shutil.rmtree(S, ignore_errors=True)


def run_shard(desc, R):
    install_hook()
    sandbox = os.path.join(os.environ.get("VERIF_SCRATCH_DIR", "/var/tmp"), "c15-%d-%s" % (os.getpid(), desc["shard"]))
    os.makedirs(sandbox, exist_ok=True)
    rnd = random.Random("C15:%s:%s:%s" % (desc["kind"], desc["seed"], desc["shard"]))
    forms = ("plain", "slash", "rel", "dotdot", "relslash")
    idx = 0
    try:
        if desc["kind"] == "enum":
            k = 0
            for d in range(1, desc["depth"] + 1):
                for name in names_of_depth(d, rnd, all_seps=(d <= 3)):
                    k += 1
                    if k % desc["n"] != desc["shard"]:
                        continue
                    variants = [name, "/" + name, "$S/" + name, name + "/"] if d <= 3 else \
                        [rnd.choice((name, "/" + name, "$S/" + name, name + "/"))]
                    for v in variants:
                        idx += 1
                        one_archive(R, sandbox, [v], forms[idx % len(forms)], "extractall", idx)
            R.count("enumerated_depth_%d_complete" % desc["depth"])
        else:
            for _ in range(desc["count"]):
                members = []
                for _ in range(rnd.randint(1, 6)):
                    d = rnd.randint(1, 5)
                    name = rnd.choice(COMPONENTS)
                    for _ in range(d - 1):
                        name += rnd.choice("/\\/") + rnd.choice(COMPONENTS + ["nfo.json", "revisions-1.txt"])
                    x = rnd.random()
                    if x < 0.15:
                        name = "/" + name
                    elif x < 0.3:
                        name = "$S/" + name
                    if rnd.random() < 0.2:
                        name += "/"
                    members.append(name)
                # a file and a directory of the same name make extraction fail for reasons unrelated to C15
                idx += 1
                prelude = None
                if rnd.random() < 0.2:
                    prelude = ["images/a.png", "a/b/c.txt", "nfo.json"]
                    members.insert(rnd.randint(0, len(members)), rnd.choice(
                        ("../dst0/images/evil.txt", "../dst0/a/b/evil", "x/../../dst0/images/e2", "../dst0/a/evil3", "$S/dst0/images/e4")))
                one_archive(R, sandbox, members, rnd.choice(forms),
                            rnd.choice(("adapt", "make_wiki", "make_wiki_multi", "extractall", "extractall", "extractall")), idx,
                            prelude=prelude)
    finally:
        shutil.rmtree(sandbox, ignore_errors=True)


def replay(case):
    from ..child import Recorder
    install_hook()
    sandbox = os.path.join(os.environ.get("VERIF_SCRATCH_DIR", "/var/tmp"), "c15-replay-%d" % os.getpid())
    os.makedirs(sandbox, exist_ok=True)
    R = Recorder()
    try:
        one_archive(R, sandbox, case["members"], case["dst"], case["via"], 1, prelude=case.get("prelude"))
    finally:
        shutil.rmtree(sandbox, ignore_errors=True)
    return [(v["key"], v["what"], None) for v in R.violations]
