"""C11 Fetching a collection yields a complete and faithful archive.

History + executable model: the real make_nuwiki runs against the synthetic wiki K (vlib/mon/synthwiki.py)
through a subclass of the real API client; afterwards the directory is read back with nuwiki.Adapt and
compared with a closure over K's ground truth.
"""
import json
import os
import random
import shutil

from ..child import exc_detail, exc_key, h64

ID = "C11"
LEVEL = "exploration"
CASE_CPU = 120
RULE = ("random synthetic wikis (1-10 articles with 1-4 revisions, 0-6 templates nested to depth 3, 0-8 images some "
        "only reachable through nested templates and some in a shared repository, redirect chains <=3 and 2-cycles, "
        "missing pages, bots and anonymous contributors) and metabooks over them (canonical titles, with/without "
        "revision ids), api_request_limit and api_result_limit in 1..50, with/without noimages, seeded response "
        "latencies; several fetches per process; non-trivial = archive needed >=1 template or image or redirect; "
        "distinct = distinct (wiki, metabook, limits, latency seed)")
ASSUMPTIONS = [
    "K speaks the query-continue dialect of the MediaWiki API; the HTTP layer (MwApi._fetch, download client) is replaced",
    "server-side semantics modelled after MediaWiki: transclusion follows exactly one redirect, a missing transcluded "
    "page expands to a red link [[:Title]], the API's redirects=1 resolves chains and drops circular ones",
    "termination: gevent LoopExit = deadlock; more than 60*(pages+images+templates+5) requests = livelock",
]
REQUIRED = {"fetches_completed": 100, "article_reads": 200, "image_checks": 100, "contributor_checks": 100,
            "with_continuation": 20, "with_redirects": 20, "with_shared_repo": 10, "revision_pinned": 20}
LEVEL_TEXT = ("Exploration: 400 (quick) / 2e4 (thorough) fetches of the real make_nuwiki against generated wikis with "
              "seeded latencies (= greenlet interleavings at real suspension points) and small batch limits; the "
              "archive read back through nuwiki.Adapt must equal the closure over the wiki's ground truth. The synthetic "
              "server may cap list results below what was asked for (continuation of every list) and serves images at "
              "its own pace.")
LEVEL_NOTE = "K speaks one API dialect; HTTP/2, OAuth, retries and real latency distributions are outside."
TECHNIQUE = "recorded request history + executable wiki model (closure oracle) around the real fetcher under seeded greenlet interleavings"


def plan(tier, seed):
    n = 16
    per = 60 if tier == "quick" else 2500
    return [{"shard": i, "count": per, "seed": seed} for i in range(n)]


def gen_wiki(rnd):
    from mwlib.network.siteinfo import get_siteinfo
    from ..mon.synthwiki import Wiki
    si = get_siteinfo("en")
    w = Wiki("wiki.test", si)
    shared = Wiki("commons.test", si)
    w.shared = shared
    users = ["Ann", "Bob", "Cat", "Dan", "Eve", "FixBot", "Cleanup bot", "Zed", "Übel"]
    rev = [rnd.randint(100, 200)]

    def nextrev():
        rev[0] += rnd.randint(1, 9)
        return rev[0]

    nimg = rnd.randint(0, 8)
    images = ["File:Img%d.png" % i for i in range(1, nimg + 1)]
    for im in images:
        repo = "shared" if rnd.random() < 0.3 else "local"
        w.files[im] = {"bytes": ("PNG:%s:%d" % (im, rnd.randint(0, 10 ** 6))).encode(), "repo": repo}
        host = shared if repo == "shared" else w
        host.add_page(im, 6, [(nextrev(), "description of %s {{Information}}" % im, rnd.choice(users), False)],
                      contributors=rnd.sample(users, rnd.randint(1, 3)), anon=rnd.randint(0, 3))
        if repo == "shared":
            shared.files[im] = {"bytes": w.files[im]["bytes"], "repo": "local"}
    ntpl = rnd.randint(0, 6)
    tpls = ["T%d" % i for i in range(1, ntpl + 1)]
    for i, t in enumerate(tpls):
        parts = ["tpl%s(" % t, "{{{1|}}}", ")"]
        deeper = tpls[i + 1:]
        if deeper and rnd.random() < 0.6:
            parts.append(" {{%s|n}}" % rnd.choice(deeper))
        if images and rnd.random() < 0.5:
            parts.append(" [[File:%s|thumb|in %s]]" % (rnd.choice(images)[5:], t))
        w.add_page("Template:" + t, 10, [(nextrev(), "".join(parts), rnd.choice(users), False)],
                   contributors=rnd.sample(users, rnd.randint(1, 2)))
    nart = rnd.randint(1, 10)
    arts = ["Art %d" % i for i in range(1, nart + 1)]
    for a in arts:
        revs = []
        for k in range(rnd.randint(1, 4)):
            parts = ["text of %s v%d" % (a, k)]
            for _ in range(rnd.randint(0, 3)):
                x = rnd.random()
                if x < 0.4 and tpls:
                    parts.append("{{%s|%s}}" % (rnd.choice(tpls), "arg%d" % rnd.randint(1, 9)))
                elif x < 0.7 and images:
                    parts.append("[[File:%s|thumb|cap]]" % rnd.choice(images)[5:])
                else:
                    parts.append("[[%s]]" % rnd.choice(arts))
            revs.append((nextrev(), " ".join(parts), rnd.choice(users), rnd.random() < 0.2))
        w.add_page(a, 0, revs, contributors=rnd.sample(users, rnd.choice((1, 2, 3, 5, 7, len(users)))), anon=rnd.randint(0, 4))
    # redirects: chains and cycles
    reds = []
    for i in range(rnd.randint(0, 4)):
        name = "Red %d" % (i + 1)
        k = rnd.random()
        if k < 0.6 or not reds:
            target = rnd.choice(arts)
        elif k < 0.85:
            target = rnd.choice(reds)          # chain
        else:
            target = "Red %d" % (i + 2)        # may dangle or close a cycle below
        w.add_page(name, 0, [(nextrev(), "#REDIRECT [[%s]]" % target, rnd.choice(users), False)], contributors=[rnd.choice(users)])
        reds.append(name)
    if rnd.random() < 0.2:
        w.add_page("Cyc A", 0, [(nextrev(), "#REDIRECT [[Cyc B]]", "Ann", False)], contributors=["Ann"])
        w.add_page("Cyc B", 0, [(nextrev(), "#REDIRECT [[Cyc A]]", "Ann", False)], contributors=["Ann"])
        reds += ["Cyc A", "Cyc B"]
        if rnd.random() < 0.6:
            # a redirect that leads into the circle without being part of it
            w.add_page("Into cyc", 0, [(nextrev(), "#REDIRECT [[Cyc A]]", "Bob", False)], contributors=["Bob"])
            reds.append("Into cyc")
    if rnd.random() < 0.2:
        w.add_page("Dangling", 0, [(nextrev(), "#REDIRECT [[Nowhere at all]]", "Ann", False)], contributors=["Ann"])
        reds.append("Dangling")
    return w, shared, arts, reds


def gen_metabook(rnd, w, arts, reds):
    entries = []
    pinned_targets = set()
    for _ in range(rnd.randint(1, 6)):
        k = rnd.random()
        if k < 0.55:
            a = rnd.choice(arts)
            if rnd.random() < 0.4:
                rv = rnd.choice(w.pages[a]["revs"])
                entries.append((a, rv[0]))
                if rv is not w.pages[a]["revs"][-1]:
                    pinned_targets.add(a)
            else:
                entries.append((a, None))
        elif k < 0.8 and reds:
            r = rnd.choice(reds)
            if rnd.random() < 0.3:
                entries.append((r, w.pages[r]["revs"][-1][0]))     # the redirect page pinned by its revision id
            else:
                entries.append((r, None))
        else:
            entries.append(("Missing page %d" % rnd.randint(1, 3), None))
    # a redirect's target must not be listed with an older pinned revision at the same time
    out = []
    for t, r in entries:
        if t in w.pages and (r is None or w.redirect_target(t) is not None):
            final, _ = w.resolve(t)
            if final in pinned_targets and final != t:
                continue
        if (t, r) not in out:
            out.append((t, r))
    return out


old_only = set()     # images used only by a pinned old revision's text (the current version does not use them)


def expected(w, entries, noimages):
    """closure over K's ground truth: what the archive must hold"""
    need_pages = []       # (entry, kind, expected text or None)
    images = set()
    old_only.clear()
    for title, rev in entries:
        p = w.pages.get(title)
        if p is None:
            need_pages.append(((title, rev), "missing", None))
            continue
        if rev is not None and w.redirect_target(title) is None:
            rv = [r for r in p["revs"] if r[0] == rev][0]
            need_pages.append(((title, rev), "pinned", w.expand(rv[1])))
            src = title
        else:
            final, hops = w.resolve(title)
            if final is None or final not in w.pages:
                need_pages.append(((title, rev), "dead-redirect", None))
                continue
            kind = "current" if not hops else ("redirect" if len(hops) == 1 else "redirect-chain")
            need_pages.append(((title, rev), kind, w.expand(w.current(final)[1], seen=(final,))))
            src = final
        if not noimages:
            import re
            from ..mon.synthwiki import norm_title
            served = need_pages[-1][2] or ""
            used = {"File:" + norm_title(m) for m in re.findall(r"\[\[File:([^|\]]+)", served)}
            images.update(used)
            old_only.update(used - set(w.images_of(src)))
    return need_pages, sorted(i for i in images if i in w.files)


_last = {}


def wiki_from_case(case):
    from mwlib.network.siteinfo import get_siteinfo
    from ..mon.synthwiki import Wiki
    si = get_siteinfo("en")
    w = Wiki("wiki.test", si)
    shared = Wiki("commons.test", si)
    w.shared = shared
    meta = case.get("meta", {})
    for t, revs in case["pages"].items():
        m = meta.get(t, {})
        host = shared if (t in case["files"] and case["files"][t] == "shared") else w
        host.add_page(t, 6 if t.startswith("File:") else (10 if t.startswith("Template:") else 0),
                      [tuple(r) for r in revs], contributors=m.get("contributors", []), anon=m.get("anon", 0))
    for t, repo in case["files"].items():
        data = ("PNG:%s" % t).encode()
        w.files[t] = {"bytes": data, "repo": repo}
        if repo == "shared":
            shared.files[t] = {"bytes": data, "repo": "local"}
    return w, shared


def run_fetch(rnd, workdir, idx, R, given=None):
    import gevent
    from mwlib.apps import make_nuwiki as mn
    from mwlib.core import metabook, nuwiki
    from mwlib.network import fetch, sapi
    from mwlib.utils import conf
    from mwlib.utils.status import Status
    from ..mon import synthwiki
    if given is None:
        w, shared, arts, reds = gen_wiki(rnd)
        entries = gen_metabook(rnd, w, arts, reds)
        req_limit = rnd.choice((1, 2, 3, 5, 15, 50))
        res_limit = rnd.choice((1, 2, 3, 7, 50, 500))
        noimages = rnd.random() < 0.2
        lat_seed = rnd.getrandbits(32)
        server_cap = rnd.choice((500, 500, 3, 2, 1, 7))
    else:
        w, shared = wiki_from_case(given)
        entries = [tuple(e) for e in given["metabook"]]
        req_limit, res_limit = given["api_request_limit"], given["api_result_limit"]
        noimages, lat_seed = given["noimages"], given["latency_seed"]
        server_cap = given.get("server_cap", 500)
    max_lat = rnd.choice((0.0, 0.0005, 0.003)) if given is None else given.get("max_latency", 0.0005)
    net = synthwiki.Net(random.Random(lat_seed), max_latency=max_lat)
    net.wikis = {"wiki.test": w, "commons.test": shared}
    net.download_latency = (rnd.choice((None, None, 0.02, 0.06)) if given is None else given.get("download_latency"))
    w.server_cap = shared.server_cap = server_cap
    synthwiki.install(net)
    # the documented settings (section fetch), set at run time as a configuration file would
    if not conf.config.has_section("fetch"):
        conf.config.add_section("fetch")
    conf.config["fetch"]["api_request_limit"] = str(req_limit)
    conf.config["fetch"]["api_result_limit"] = str(res_limit)
    conf.config["fetch"]["max_requests_per_second"] = "0"
    mb = metabook.Collection(title="B")
    for t, r in entries:
        mb.append_article(t, revision=r)
    mb.wikis.append(metabook.WikiConf(baseurl="http://wiki.test/w/"))
    d = os.path.join(workdir, "f%d" % idx)
    allpages = dict(shared.pages)
    allpages.update(w.pages)
    case = {"pages": {t: [list(r) for r in p["revs"]] for t, p in allpages.items()}, "files": {k: v["repo"] for k, v in w.files.items()},
            "meta": {t: {"contributors": p["contributors"], "anon": p["anon"]} for t, p in allpages.items()},
            "metabook": [list(e) for e in entries], "api_request_limit": req_limit, "api_result_limit": res_limit,
            "noimages": noimages, "latency_seed": lat_seed, "max_latency": max_lat, "server_cap": server_cap,
            "download_latency": net.download_latency}
    _last["net"] = net
    R.breadcrumb(json.dumps(case)[:900000])
    st = Status()
    st.stdout = None
    budget = 60 * (len(w.pages) + len(w.files) + 5)
    ok = False
    try:
        with gevent.Timeout(120, RuntimeError("wall-clock watchdog")):
            mn.make_nuwiki(d, mb, {"script_extension": ".php", "imagesize": 800, "noimages": noimages}, None, st)
        ok = True
    except gevent.exceptions.LoopExit as e:
        R.violation("termination:deadlock", "fetch ended in LoopExit (all greenlets blocked forever): %s" % str(e)[:100], case)
    except RuntimeError as e:
        if "watchdog" in str(e):
            R.inconc("wall-clock watchdog during fetch")
        else:
            R.violation("fetch-raises:" + exc_key(e), "make_nuwiki raised RuntimeError: %s" % str(e)[:120], case, exc_detail(e))
    except Exception as e:
        R.violation("fetch-raises:" + exc_key(e), "make_nuwiki raised %s: %s" % (type(e).__name__, str(e)[:120]), case, exc_detail(e))
    nreq = len(net.log)
    R.count("requests_observed", nreq)
    if nreq > budget:
        R.violation("termination:request-budget", "%d requests for a wiki of %d pages / %d files" % (nreq, len(w.pages), len(w.files)), case)
    if any(any(k.endswith("continue") for k in q) for _, q in net.log):
        R.count("with_continuation")
    need_pages, need_images = expected(w, entries, noimages)
    nontrivial = bool(need_images) or any(k in ("redirect", "redirect-chain") for _, k, _ in need_pages) or any("{{" in (w.current(t)[1]) for t, _ in entries if t in w.pages)
    R.case(h64(json.dumps(case, sort_keys=True)), nontrivial,
           sample={"metabook": case["metabook"], "limits": [req_limit, res_limit], "requests": nreq, "pages_in_wiki": len(w.pages)})
    if not ok:
        shutil.rmtree(d, ignore_errors=True)
        return
    R.count("fetches_completed")
    # ---- read back ------------------------------------------------------------------------------
    try:
        a = nuwiki.Adapt(d)
    except Exception as e:
        R.violation("archive-unreadable:" + exc_key(e), "nuwiki.Adapt raised %s" % type(e).__name__, case, exc_detail(e))
        shutil.rmtree(d, ignore_errors=True)
        return
    try:
        for (title, rev), kind, text in need_pages:
            R.count("article_reads")
            if kind in ("redirect", "redirect-chain"):
                R.count("with_redirects")
            if rev is not None:
                R.count("revision_pinned")
                page = a.nuwiki.get_page(title, revision=rev)
            else:
                page = a.normalize_and_get_page(title, 0)
            got = None if page is None else page.rawtext
            if kind in ("missing", "dead-redirect"):
                if got is not None:
                    R.violation("%s-page-stored" % kind, "%s %r is in the archive with text %r" % (kind, title, got[:60]), case)
                continue
            if got is None:
                R.violation("article-missing:" + kind, "listed article %r (%s) is not in the archive" % (title, kind), case)
            elif got != text:
                R.violation("article-text-differs:" + kind, "article %r (%s): archive has %r, the wiki serves %r" % (title, kind, got[:80], text[:80]), case)
            # contributors of the article
            src = title if kind in ("pinned", "current") else w.resolve(title)[0]
            names, anon = w.contributors_of(src)
            want = sorted(names) + (["ANONIPEDITS:%d" % anon] if (names or anon) else [])
            got_a = a.get_authors(title, revision=rev)
            R.count("contributor_checks")
            if got_a is None or sorted(got_a) != sorted(want):
                R.violation("contributors:article:" + ("missing" if not got_a else "wrong") + ":" + kind,
                            "contributors of %r: archive %r, wiki reports %r" % (title, got_a, want), case)
        for im in need_images:
            R.count("image_checks")
            if w.files[im]["repo"] == "shared":
                R.count("with_shared_repo")
            p = a.get_disk_path(im)
            if p is None and im in old_only:
                R.violation("image:missing:used-only-by-pinned-old-revision",
                            "image %r is used by the pinned old revision's text but not by the page's current version; it is not in the archive" % im, case)
                continue
            if p is None:
                R.violation("image:file-missing", "image %r used by a listed article has no file in the archive" % im, case)
            else:
                with open(p, "rb") as f:
                    if f.read() != w.files[im]["bytes"]:
                        R.violation("image:wrong-bytes", "image %r has other bytes than the wiki serves" % im, case)
            if a.nuwiki.imageinfo.get(im) is None and a.nuwiki.imageinfo.get(im.replace("File:", "Image:")) is None:
                R.violation("image:metadata-missing", "no imageinfo entry for %r" % im, case)
            dp = a.get_image_description_page(im)
            host = shared if w.files[im]["repo"] == "shared" else w
            if dp is None:
                R.violation("image:description-page-missing", "no description page for %r (%s repository)" % (im, w.files[im]["repo"]), case)
            elif dp.rawtext != host.current(im)[1]:
                R.violation("image:description-page-differs", "description page of %r differs" % im, case)
            names, anon = host.contributors_of(im)
            want = sorted(names) + (["ANONIPEDITS:%d" % anon] if (names or anon) else [])
            got_a = a.get_authors(im)
            R.count("contributor_checks")
            if got_a is None or sorted(got_a) != sorted(want):
                R.violation("contributors:image:" + ("missing" if not got_a else "wrong"),
                            "contributors of %r: archive %r, wiki reports %r" % (im, got_a, want), case)
    except Exception as e:
        R.violation("readback-raises:" + exc_key(e), "%s: %s" % (type(e).__name__, str(e)[:100]), case, exc_detail(e))
    finally:
        shutil.rmtree(d, ignore_errors=True)


def run_shard(desc, R):
    import contextlib
    import io
    import logging
    logging.disable(logging.CRITICAL)
    os.environ["MWLIB_FETCH_MAX_REQUESTS_PER_SECOND"] = "0"
    rnd = random.Random("C11:%s:%s" % (desc["seed"], desc["shard"]))
    workdir = os.path.join(os.environ.get("VERIF_SCRATCH_DIR", "/var/tmp"), "c11-%d" % os.getpid())
    os.makedirs(workdir, exist_ok=True)
    try:
        for i in range(desc["count"]):
            with contextlib.redirect_stdout(io.StringIO()), contextlib.redirect_stderr(io.StringIO()):
                run_fetch(rnd, workdir, i, R)
    finally:
        shutil.rmtree(workdir, ignore_errors=True)


def replay(case):
    import contextlib
    import io
    import logging
    import tempfile
    logging.disable(logging.CRITICAL)
    from ..child import Recorder
    R = Recorder()
    workdir = tempfile.mkdtemp(prefix="c11-replay-", dir=os.environ.get("VERIF_SCRATCH_DIR", "/var/tmp"))
    try:
        with contextlib.redirect_stdout(io.StringIO()), contextlib.redirect_stderr(io.StringIO()):
            run_fetch(random.Random(0), workdir, 0, R, given=case)
    finally:
        shutil.rmtree(workdir, ignore_errors=True)
    if os.environ.get("VERIF_SHOW_LOG"):
        for host, q in _last["net"].log:
            print(host, json.dumps(q)[:200])
    return [(v["key"], v["what"], v.get("detail")) for v in R.violations]
