"""C17 - see DESIGN.md section 4.  Engine: vlib/mon/qengine.py, oracle: vlib/mon/qmodel.py."""
from . import qcommon

ID = "C17"
LEVEL = "exploration"
ASSUMPTIONS = [
    "the socket is replaced by an in-memory object; everything above it (rpcserver.Server.handle_client, "
    "QPlugin, workq, gevent hub) is the real code",
    "requests issued between two 'run' ops are dispatched in issue order, each atomically up to its first "
    "suspension point - the interleavings a cooperative gevent server can exhibit",
    "time is virtual (qs.jobs.time replaced); the server's periodic loops run exactly at 'tick' ops",
]
REQUIRED = {"histories_checked": 500, "obs_handoffs": 20, "obs_nonblocking_pulls": 20}


def plan(tier, seed):
    return qcommon.plan(ID, tier, seed)


def run_shard(desc, R):
    return qcommon.run_shard(ID, desc, R)


def replay(case):
    return qcommon.replay(ID, case)

REQUIRED.update({"obs_priority_decisions": 10, "obs_finality_probes": 100, "obs_stats_probes": 50,
                 "obs_waits_released": 5, "obs_readds_existing": 5})
RULE = ("histories over C16's alphabet extended with wait, add(wait=True), re-add(id), finish-by-third-party, "
        "setinfo, stats and qinfo probes at every quiescent point; DFS to the stated depth plus random; "
        "non-trivial = at least one job handed out; distinct = distinct (op list, choice vector)")
LEVEL_TEXT = ("Exploration: the same engine as C16; the checker compares every pull with the model's queued "
              "candidates (channel, not-done, minimal (priority, serial)), every qinfo probe with the first "
              "recorded outcome (finality), wait releases with finish points, re-adds (also under the other channel) "
              "and per-channel counters.")
LEVEL_NOTE = "Same trusted base as C16; qinfo/getstats probes run through a dedicated connection in their own quantum."
TECHNIQUE = "recorded history + executable sequential model (ordering, finality, wait-release, idempotent add, counter conservation)"
