"""C19 Render status reported to the wiki is faithful to the job's real state.

Application.do_render_status runs against the real queue (engine of C16) through an in-process
proxy; after every history of the collection's fetch/render jobs the response for every writer is
compared with the reference mapping computed from the *model's* job table (vlib/mon/qmodel.py).
"""
import json
import os
import random
import re
import urllib.parse

from ..child import h64

ID = "C19"
LEVEL = "exploration"
CID = "0123456789abcdef"
WRITERS = ("rl", "odf", "xl")
DATA_FETCHED = {"status": "data fetched. waiting for render process.."}
RULE = ("histories of one collection's jobs '<cid>:makezip' and '<cid>:render-<writer>' (writers rl, odf, xl) "
        "over {add, pull, setinfo, finish with/without result, finish with error, kill, timeout tick, ttl-drop "
        "tick, worker disconnect}: every history to the DFS depth plus random longer ones; after each, "
        "do_render_status for all three writers is compared with the reference mapping of the model state; "
        "plus suggested filenames over printable Unicode checked for header safety. non-trivial = the render "
        "job of some writer exists in the model when status is asked; distinct = distinct op lists / names")
ASSUMPTIONS = [
    "the queue proxy is bound in-process to the engine's real rpc_qinfo through a JSON round trip",
    "finish payloads are the ones real workers send: result dict {url,size,suggested_filename} or None; "
    "error None or a non-empty string",
]
REQUIRED = {"worker_jobs": 8, "status_checks": 500, "state_finished": 20, "state_failed": 20, "state_progress": 100,
            "filenames_checked": 1000, "other_writer_present": 20}
LEVEL_TEXT = ("Exploration: every history to depth 4 (quick) / 5 (thorough) of the two jobs of a collection on the "
              "real queue code, status asked through the real Application.do_render_status for three writers and "
              "compared with a 20-line reference mapping of the sequential model's state; header safety of "
              "content_disposition checked on 20k (quick) / 400k (thorough) generated filenames. Every poll is repeated "
              "through Application.dispatch() with two queue servers configured and the owning one flagged idle / "
              "overloaded / down: the answer must be the same.")
LEVEL_NOTE = "Trusts the queue model of C16/C17 for the job's real state and the reference mapping written from the statement."
TECHNIQUE = "recorded history + reference mapping monitor over the real queue and real status handler; header-safety invariant on generated names"

OPS = [
    ["addF"], ["addR", "rl"], ["addR", "odf"], ["pullF"], ["pullR"], ["infoF"], ["infoR", "rl"],
    ["finF", None], ["finF", "fetch failed"], ["finR", "rl", "res", None], ["finR", "rl", None, None],
    ["finR", "rl", None, "render crashed"], ["finR", "odf", "res", None], ["killR", "rl"], ["killF"],
    ["tick", 1300], ["tick", 4000], ["disc"], ["readdR", "rl"],
]


def plan(tier, seed):
    n = 16
    depth = 4 if tier == "quick" else 5
    shards = [{"kind": "dfs", "shard": i, "n": n, "depth": depth, "seed": seed} for i in range(n)]
    shards += [{"kind": "random", "shard": i, "count": 300 if tier == "quick" else 20000, "seed": seed}
               for i in range(n)]
    shards += [{"kind": "names", "shard": i, "count": 1500 if tier == "quick" else 25000, "seed": seed}
               for i in range(n)]
    # the worker side: a real qserve, a real qs.slave worker whose render command ends in every way, real status
    shards += [{"kind": "worker", "shard": 0, "seed": seed, "runs": 1 if tier == "quick" else 5}]
    return shards


# ---------------------------------------------------------------------------------------------
class Proxy:
    """stands in for rpcclient.ServerProxy: real rpc_qinfo on the engine via the probe connection"""

    def __init__(self, eng):
        self.eng = eng

    def qinfo(self, jobid):
        ev = self.eng.send("probe", "qinfo", jobid=jobid)
        self.eng.run()
        r = ev["ret"]
        if r is None or "error" in r:
            raise RuntimeError("qinfo failed: %r" % (r,))
        return r["result"]


def jid_f():
    return CID + ":makezip"


def jid_r(w):
    return "%s:render-%s" % (CID, w)


def result_payload(name):
    return {"url": "http://cache.test/%s/output.bin" % CID, "size": 4242, "suggested_filename": name}


def apply(eng, ck, op, state):
    """returns False if the op is not enabled (judged on the model state)"""
    k = op[0]
    jobs = ck.jobs

    def idle(c):
        cc = eng.conns[c]
        return not cc.open and not cc.disconnected

    if k == "addF":
        eng.send("c1", "qadd", channel="makezip", jobid=jid_f(), timeout=1200, payload={"x": 1})
    elif k in ("addR", "readdR"):
        if k == "readdR" and jid_r(op[1]) not in jobs:
            return False
        eng.send("c1", "qadd", channel="render", jobid=jid_r(op[1]), timeout=1200)
    elif k == "pullF":
        if not idle("w1"):
            return False
        eng.send("w1", "qpull", channels=["makezip"])
    elif k == "pullR":
        if not idle("w2"):
            return False
        eng.send("w2", "qpull", channels=["render"])
    elif k == "infoF":
        if jid_f() not in jobs:
            return False
        state["n"] += 1
        eng.send("c1", "qsetinfo", jobid=jid_f(), info={"status": "fetching", "progress": state["n"]})
    elif k == "infoR":
        if jid_r(op[1]) not in jobs:
            return False
        state["n"] += 1
        eng.send("c1", "qsetinfo", jobid=jid_r(op[1]), info={"status": "rendering", "progress": state["n"]})
    elif k == "finF":
        if jid_f() not in jobs:
            return False
        eng.send("c1", "qfinish", jobid=jid_f(), error=op[1])
    elif k == "finR":
        if jid_r(op[1]) not in jobs:
            return False
        res = result_payload(state.get("name", "My Book")) if op[2] else None
        eng.send("c1", "qfinish", jobid=jid_r(op[1]), result=res, error=op[3])
    elif k == "killR":
        if jid_r(op[1]) not in jobs:
            return False
        eng.send("c1", "qkill", jobids=[jid_r(op[1])])
    elif k == "killF":
        if jid_f() not in jobs:
            return False
        eng.send("c1", "qkill", jobids=[jid_f()])
    elif k == "tick":
        if not jobs:
            return False
        eng.tick(op[1])
    elif k == "disc":
        if eng.conns["w2"].disconnected:
            return False
        eng.disconnect("w2")
    eng.run()
    return True


def reference(jobs, writer):
    R = jobs.get(jid_r(writer))
    F = jobs.get(jid_f())
    if R is not None and R.done and R.error:
        return {"state": "failed", "error": R.error}
    if R is not None and R.done:
        exp = {"state": "finished"}
        if R.result:
            exp["url"] = R.result["url"]
            exp["content_length"] = R.result["size"]
        return exp
    if R is not None and R.info:
        return {"state": "progress", "status": R.info}
    if F is not None and F.done:
        return {"state": "progress", "status": DATA_FETCHED}
    return {"state": "progress", "status": F.info if F is not None else {}}


def header_problem(value, name, ext):
    """None if the content_disposition value is header-safe and faithful, else a description"""
    if any(not (0x20 <= ord(c) <= 0x7E) for c in value):
        return "non-printable-ascii"
    m = re.match(r"^inline; filename=([^;]*)(?:;filename\*=UTF-8''(.*))?$", value)
    if not m:
        return "unparseable"
    fn, star = m.group(1), m.group(2)
    if re.search(r"[;,\"\s]", fn) or not fn.endswith("." + ext) or len(fn) <= len(ext) + 1:
        return "unsafe-ascii-filename"
    if star is not None:
        if re.search(r"[^A-Za-z0-9%._~\-!$&'()*+/:@]", star):
            return "unsafe-ext-value"
        want = (name or "").strip() or "collection"
        if urllib.parse.unquote(star) != want + "." + ext:
            return "ext-value-not-faithful"
    return None


def routed_status(eng, w, owner_busy):
    """the same poll through Application.dispatch(): two queue servers are configured, the collection's jobs live on
    the first one (possibly flagged busy by the watcher), the second one is idle and knows nothing"""
    from mwlib.core import nserve

    class Params(dict):
        pass

    class Req:
        params = Params(command="render_status", collection_id=CID, writer=w)
        url = "http://render.test/"

    owner, other = ("qs-owner.test", 14311), ("qs-other.test", 14312)

    class Routed:
        def __init__(self, host=None, port=None):
            self.host = host

        def qinfo(self, jobid):
            if self.host == owner[0]:
                return Proxy(eng).qinfo(jobid)
            return None

    saved = (nserve.rpcclient.ServerProxy, dict(nserve.busy))
    nserve.rpcclient.ServerProxy = Routed
    nserve.busy.clear()
    nserve.busy[owner] = owner_busy
    nserve.busy[other] = False
    nserve.collid2qserve[CID] = owner
    try:
        import contextlib
        import io
        with contextlib.redirect_stdout(io.StringIO()), contextlib.redirect_stderr(io.StringIO()):
            return nserve.Application().dispatch(Req())
    finally:
        nserve.rpcclient.ServerProxy = saved[0]
        nserve.busy.clear()
        nserve.busy.update(saved[1])


def check_status(app, eng, ck, fed, R, ops, name2writer):
    """ask status for every writer, compare with the reference; returns new fed index"""
    for w in WRITERS:
        ck.feed(eng.events[fed[0]:])
        fed[0] = len(eng.events)
        exp = reference(ck.jobs, w)
        try:
            got = app.do_render_status(CID, {"writer": w})
        except Exception as e:
            R.violation("status:raises:%s" % type(e).__name__, "do_render_status raised %r" % (e,),
                        {"ops": ops, "writer": w})
            continue
        R.count("status_checks")
        R.count("state_" + exp["state"])
        # routed through dispatch(): the answer must not depend on the owning queue server being flagged busy
        busy_flag = (False, "system overloaded", "system down")[(len(ops) + WRITERS.index(w)) % 3]
        try:
            via = routed_status(eng, w, busy_flag)
            R.count("routed_status_checks")
            if isinstance(via, dict) and "error" in via and "overloaded" in str(via.get("error")):
                R.count("routed_refused_as_overloaded")
            elif not isinstance(via, dict) or via.get("state") != got.get("state") or via.get("error") != got.get("error"):
                R.violation("status:routing:answer-depends-on-busy-flag", "asked through dispatch() with the owning queue server flagged %r "
                            "the answer is %r, asked directly it is %r" % (busy_flag, via, got), {"ops": ops, "writer": w, "busy": busy_flag})
        except Exception as e:
            R.violation("status:routing:raises:%s" % type(e).__name__, "dispatch(render_status) raised %r" % (e,), {"ops": ops, "writer": w})
        if any(jid_r(x) in ck.jobs for x in WRITERS if x != w):
            R.count("other_writer_present")
        case = {"ops": ops, "writer": w}
        if got.get("collection_id") != CID or got.get("writer") != w:
            R.violation("status:wrong-identity", "response is for %r/%r" % (got.get("collection_id"), got.get("writer")), case)
        if got.get("state") != exp["state"]:
            R.violation("status:state:%s-reported-as-%s" % (exp["state"], got.get("state")),
                        "job state %r reported as %r (%r)" % (exp, got.get("state"), got), case)
            continue
        if exp["state"] == "failed" and got.get("error") != exp["error"]:
            R.violation("status:failed-wrong-error", "error %r reported as %r" % (exp["error"], got.get("error")), case)
        if exp["state"] == "progress" and got.get("status") != exp["status"]:
            R.violation("status:progress-wrong-status", "status %r, expected %r" % (got.get("status"), exp["status"]), case)
        if exp["state"] == "finished":
            nw = name2writer[w]
            if got.get("url") != exp.get("url") or got.get("content_length") != exp.get("content_length"):
                R.violation("status:finished-wrong-download", "download (%r,%r), expected (%r,%r)" % (
                    got.get("url"), got.get("content_length"), exp.get("url"), exp.get("content_length")), case)
            if got.get("content_type") != nw.content_type:
                R.violation("status:finished-wrong-content-type", "content type %r" % got.get("content_type"), case)
            cd = got.get("content_disposition")
            jr = ck.jobs.get(jid_r(w))
            name = (jr.result or {}).get("suggested_filename") if jr is not None else None
            prob = header_problem(cd or "", name, nw.file_extension)
            if prob:
                R.violation("status:content-disposition:" + prob, "content_disposition %r for name %r" % (cd, name), case)
    ck.feed(eng.events[fed[0]:])
    fed[0] = len(eng.events)


def run_history(ops, R, name="My Böök; v2", full=True):
    from mwlib.core import nserve
    from ..mon.qengine import Engine
    from ..mon.qmodel import Checker
    eng = Engine(names=("w1", "w2", "c1", "probe"))
    ck = Checker()
    fed = [0]
    app = nserve.Application()
    app.qserve = Proxy(eng)
    state = {"n": 0, "name": name}
    applied = []
    for i, op in enumerate(ops):
        ck.feed(eng.events[fed[0]:])
        fed[0] = len(eng.events)
        if not apply(eng, ck, op, state):
            eng.close()
            return None
        applied.append(op)
        if full or i == len(ops) - 1:
            check_status(app, eng, ck, fed, R, ops[: i + 1], nserve.name2writer)
    if not ops:
        check_status(app, eng, ck, fed, R, [], nserve.name2writer)
    for (p, key, what) in ck.findings:
        if p == "ENGINE":
            R.violation("engine:" + key, what, {"ops": ops})
        else:
            R.count("findings_belonging_to_" + p)
    nontrivial = any(jid_r(w) in ck.jobs for w in WRITERS)
    R.case(h64(json.dumps(ops), name), nontrivial, sample={"ops": ops})
    eng.close()
    return ck


def rand_name(rnd):
    pools = ["abcXYZ019", " ;:\"',", "äöüßéñÅ", "日本語한글", "  ​‏", "%/\\?*<>|=&#+", "😀🎉",
             "́̈", "()[]{}!$^~`@_-."]
    n = rnd.randint(0, 24)
    out = []
    for _ in range(n):
        x = rnd.random()
        if x < 0.6:
            out.append(rnd.choice(rnd.choice(pools)))
        else:
            while True:
                c = chr(rnd.choice((rnd.randint(0x20, 0x7e), rnd.randint(0xa0, 0x2fff), rnd.randint(0x1f300, 0x1f6ff))))
                import unicodedata
                if unicodedata.category(c) not in ("Cc", "Cs", "Cn", "Co"):
                    out.append(c)
                    break
    return "".join(out)


def run_shard(desc, R):
    import logging
    logging.disable(logging.CRITICAL)
    import io
    import sys
    if desc["kind"] == "worker":
        from ..mon import qworker
        scratch = os.environ.get("VERIF_SCRATCH_DIR", "/var/tmp")
        for i in range(desc["runs"]):
            findings, obs = qworker.run(scratch)
            for k, v in obs.items():
                R.count(k, v)
            R.case(h64("worker", desc["seed"], i), True, sample={"worker_modes": sorted(qworker.MODES)})
            for key, what in findings:
                R.violation(key, what, {"worker": True})
        return
    if desc["kind"] == "names":
        from mwlib.core import nserve
        rnd = random.Random("C19n:%s:%s" % (desc["seed"], desc["shard"]))
        for _ in range(desc["count"]):
            name = rnd.choice((None, "", "   ")) if rnd.random() < 0.02 else rand_name(rnd)
            ext = rnd.choice(("pdf", "odt", "zim"))
            try:
                cd = nserve.get_content_disposition(name, ext)
            except Exception as e:
                R.violation("content-disposition:raises:%s" % type(e).__name__, repr(e), {"name": name, "ext": ext})
                continue
            R.count("filenames_checked")
            prob = header_problem(cd, name, ext)
            R.case(h64(name, ext), bool(name and name.strip()), sample={"name": name, "header": cd})
            if prob:
                R.violation("content-disposition:" + prob, "header %r for name %r" % (cd, name),
                            {"name": name, "ext": ext})
        return
    if desc["kind"] == "random":
        rnd = random.Random("C19:%s:%s" % (desc["seed"], desc["shard"]))
        for _ in range(desc["count"]):
            ops = []
            want = rnd.randint(5, 10)
            tries = 0
            while len(ops) < want and tries < 40:
                tries += 1
                cand = ops + [rnd.choice(OPS)]
                # cheap enabledness: replay
                if run_history(cand, _Null(), full=False) is not None:
                    ops = cand
            run_history(ops, R, name=rand_name(rnd), full=True)
        return
    depth, n, sh = desc["depth"], desc["n"], desc["shard"]
    counter = [0]

    def dfs(prefix):
        ck = run_history(prefix, R, full=False)
        if ck is None:
            return
        R.count("dfs_nodes")
        if len(prefix) >= depth:
            return
        for op in OPS:
            if len(prefix) == 1:
                counter[0] += 1
                if counter[0] % n != sh:
                    continue
            dfs(prefix + [op])

    if sh == 0:
        run_history([], R)
    for op in OPS:
        if sh == 0:
            dfs_single = run_history([op], R, full=False)
        if depth >= 2:
            for op2 in OPS:
                counter[0] += 1
                if counter[0] % n != sh:
                    continue
                dfs([op, op2])
    R.count("dfs_depth_%d_complete" % depth)


class _Null:
    samples = []

    def __getattr__(self, k):
        return lambda *a, **kw: None


def replay(case):
    import logging
    logging.disable(logging.CRITICAL)
    from ..child import Recorder
    R = Recorder()
    if "name" in case:
        from mwlib.core import nserve
        cd = nserve.get_content_disposition(case["name"], case["ext"])
        prob = header_problem(cd, case["name"], case["ext"])
        return [("content-disposition:" + prob, "header %r" % cd, None)] if prob else []
    run_history(case["ops"], R, full=True)
    return [(v["key"], v["what"], None) for v in R.violations]
