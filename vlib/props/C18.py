"""C18 - see DESIGN.md section 4.  Engine: vlib/mon/qengine.py, oracle: vlib/mon/qmodel.py."""
from . import qcommon

ID = "C18"
LEVEL = "exploration"
ASSUMPTIONS = [
    "the socket is replaced by an in-memory object; everything above it (rpcserver.Server.handle_client, "
    "QPlugin, workq, gevent hub) is the real code",
    "requests issued between two 'run' ops are dispatched in issue order, each atomically up to its first "
    "suspension point - the interleavings a cooperative gevent server can exhibit",
    "time is virtual (qs.jobs.time replaced); the server's periodic loops run exactly at 'tick' ops",
]
REQUIRED = {"histories_checked": 500, "obs_handoffs": 20, "obs_nonblocking_pulls": 20}


def plan(tier, seed):
    return qcommon.plan(ID, tier, seed)


def run_shard(desc, R):
    return qcommon.run_shard(ID, desc, R)


def replay(case):
    return qcommon.replay(ID, case)

REQUIRED.update({"obs_restarts": 200, "control_histories": 200})
RULE = ("histories of C17's alphabet with a save/restore step (the real Main.savedb on a data directory before any "
        "connection shutdown, all connections dropped, optional downtime during which only the clock moves, a new "
        "Main loading the directory, fresh handlers) inserted at every position (DFS) or a "
        "random position; each is compared with the same history without the restart (control) so that only "
        "restart-induced differences count; non-trivial = a job was handed out; distinct = distinct op lists")
LEVEL_TEXT = ("Exploration: restart inserted at every position of every history to depth 3 (quick) / 5 (thorough) "
              "plus random positions in random histories; after the restart the C16/C17 oracles run against a model "
              "in which every unfinished job is queued again in (priority, serial) order with its absolute "
              "timeout and finished jobs keep their outcome. Life-cycle shards run the real Main.run loop on a "
              "loopback socket, end it in each of three ways (ctrl-c, server stopped, loop killed) and start it "
              "again from its data directory over four cycles, judged from the client's own record.")
LEVEL_NOTE = "Same trusted base as C16; the saved state is what Main.savedb writes at that instant."
TECHNIQUE = "recorded history + model with restart step (real Main.savedb / Main.loaddb, with and without downtime), differential against the restart-free control history"
