"""Shared workload for C05 (tree well-formedness / writers' contract) and C06 (passes complete).

For every input: parse_string -> build_advanced_tree -> [own validator] -> each cleaner pass applied one at
a time, directly (so the cleaner's catch-all cannot hide anything), under a step budget -> [own validator]
-> after the last pass the writers' contract.  Then the deployed driver clean_all() on a second tree with a
wrapper on TreeCleaner.report counting ERROR: reports.
"""
import json
import random

from ..child import exc_detail, exc_key, h64
from ..gen import grammar, triggers
from ..gen import wikitext as W

CASE_CPU = 90


def plan(prop, tier, seed):
    n = 16
    per = 450 if tier == "quick" else 25000
    return [{"shard": i, "count": per, "seed": seed} for i in range(n)]


def gen_case(rnd):
    k = rnd.random()
    if k < 0.012:
        return "deep", triggers.deep(rnd)
    if k < 0.05:
        # one problem many times over: more instances than any small constant a pass might count to
        return "repeated", triggers.repeated(rnd)
    if k < 0.45:
        return "trigger", triggers.document(rnd)
    if k < 0.65:
        return "grammar", grammar.make(rnd, maxwords=rnd.choice((20, 60, 150)))[1]
    if k < 0.85:
        return "soup", W.structured(rnd, rnd.randint(5, 80))
    from .C01 import snippets
    return "mutated-snippet", W.mutate(rnd, rnd.choice(snippets())[:3000], rnd.randint(0, 6))


def validate(root):
    """own tree validator (independent of advtree._validate_*): None or (kind, description)"""
    from mwlib.parser import nodes
    if getattr(root, "parent", None) is not None:
        return ("root-has-parent", "the root has a parent")
    seen = set()
    stack = [(root, ())]
    while stack:
        node, path = stack.pop()
        if id(node) in seen:
            return ("node-reached-twice", "%s reached twice (shared node or cycle), path %s" % (
                type(node).__name__, "/".join(path)))
        seen.add(id(node))
        ch = node.children
        if not isinstance(ch, list):
            return ("children-not-list", "%s.children is %s" % (type(node).__name__, type(ch).__name__))
        if isinstance(node, nodes.Text) and ch:
            return ("text-has-children", "a Text leaf has children")
        p2 = path + (type(node).__name__,)
        for c in ch:
            if not isinstance(c, nodes.Node):
                return ("child-not-node", "%s has child of type %s" % (type(node).__name__, type(c).__name__))
            if getattr(c, "parent", None) is not node:
                par = getattr(c, "parent", None)
                return ("parent-link-wrong", "%s listed by %s but its parent link points to %s (path %s)" % (
                    type(c).__name__, type(node).__name__, type(par).__name__ if par is not None else None,
                    "/".join(p2)))
            stack.append((c, p2))
    return None


def contract(root):
    """writers' structural contract after the full cleaning sequence"""
    from mwlib.parser import advtree
    for node in root.allchildren():
        n = type(node).__name__
        kids = {type(c).__name__ for c in node.children}
        if n == "Table" and kids - {"Row", "Caption"}:
            return ("table-child", "Table contains %s" % sorted(kids - {"Row", "Caption"}))
        if n == "Row" and kids - {"Cell"}:
            return ("row-child", "Row contains %s" % sorted(kids - {"Cell"}))
        if n == "ItemList" and kids - {"Item"}:
            return ("list-child", "ItemList contains %s" % sorted(kids - {"Item"}))
        par = type(node.parent).__name__ if node.parent is not None else None
        if n == "Cell" and par != "Row":
            return ("cell-outside-row", "Cell occurs under %s" % par)
        if n == "Row" and par != "Table":
            return ("row-outside-table", "Row occurs under %s" % par)
        if n == "Item" and par != "ItemList":
            return ("item-outside-list", "Item occurs under %s" % par)
    return None


def tree_stats(root):
    n = d = 0
    stack = [(root, 1)]
    while stack and n < 200000:
        node, depth = stack.pop()
        n += 1
        d = max(d, depth)
        for c in node.children:
            stack.append((c, depth + 1))
    return n, d


def snapshot(root):
    out = []
    stack = [root]
    while stack and len(out) < 100000:
        node = stack.pop()
        out.append((type(node).__name__, len(node.children), getattr(node, "caption", None) if type(node).__name__ == "Text" else None))
        stack.extend(node.children)
    return hash(tuple(out))


def build(text, lang):
    import mwlib.parser.expander  # noqa
    from mwlib.parser import advtree
    from mwlib.parser.refine.uparser import parse_string
    from ..gen.db import SynthDB
    tree = parse_string("T", text, SynthDB({"t": "tee {{{1|}}}", "box": "<div class=\"noprint\">b</div>", "twice": "{{{1}}} and {{{1}}}"}, lang), lang=lang)
    advtree.build_advanced_tree(tree)
    return tree


FIXED_POINT_STEP = {"fix_nesting": "_fix_nesting", "fix_paragraphs": "_fix_paragraphs"}


def run_case(prop, R, text, lang, kind):
    """returns list of (prop, key, what, detail)"""
    from mwlib.parser.treecleaner import TreeCleaner
    from ..mon import stepclock
    found = []
    try:
        tree = build(text, lang)
    except BaseException as e:  # a C01 matter
        R.count("parse_failed_(C01_matter)")
        return found, None
    v = validate(tree)
    R.count("validations")
    if v:
        found.append(("C05", "tree:%s:after-build_advanced_tree" % v[0], v[1], None))
        return found, tree
    # the writers construct the cleaner with rtl=True for right-to-left wikis: both configurations are exercised
    rtl = (len(text) + len(lang)) % 3 == 0
    if rtl:
        R.count("cases_with_rtl_cleaner")
    tc = TreeCleaner(tree, save_reports=True, rtl=rtl)
    tc.skip_methods = []
    broken = False
    deep_recursion = tree_stats(tree)[1] > 60
    for name in TreeCleaner.cleaner_methods:
        n, d = tree_stats(tree)
        before = snapshot(tree)
        raised = False
        try:
            with stepclock.budget(10 ** 6 + 2000 * n * d):
                getattr(tc, name)(tree)
        except stepclock.StepBudgetExceeded as e:
            found.append(("C06", "pass-hangs:%s" % name, "pass %s exceeded %d steps on a tree of %d nodes, depth %d" % (
                name, 10 ** 6 + 2000 * n * d, n, d), exc_detail(e)))
            return found, tree      # the tree is in an arbitrary state now
        except RecursionError as e:
            if d > 60:
                # C06 does not cover such depths; C05 still does: the tree the pass leaves behind must be a tree
                R.count("recursion_on_deep_tree_(outside_C06_quantifier)")
                raised = True
                deep_recursion = True
            else:
                found.append(("C06", "pass-raises:%s:%s" % (name, exc_key(e)), "pass %s raised RecursionError on a tree of depth %d" % (name, d), exc_detail(e)))
                raised = True
        except Exception as e:
            found.append(("C06", "pass-raises:%s:%s" % (name, exc_key(e)), "pass %s raised %s: %s" % (
                name, type(e).__name__, str(e)[:100]), exc_detail(e)))
            raised = True
        R.count("pass_calls")
        if name in FIXED_POINT_STEP and not raised:
            # the pass is `while self._step(node): pass`: at its fixed point one more step finds nothing to repair
            try:
                with stepclock.budget(10 ** 6 + 2000 * n * d):
                    again = getattr(tc, FIXED_POINT_STEP[name])(tree)
                R.count("fixed_point_probes")
                if again:
                    found.append(("C06", "fixed-point-not-reached:%s" % name,
                                  "pass %s returned although one more %s step still repairs something (tree of %d nodes)" % (
                                      name, FIXED_POINT_STEP[name], n), None))
            except BaseException as e:
                found.append(("C06", "fixed-point-probe-raises:%s:%s" % (name, exc_key(e)), "re-running %s raised %s" % (
                    FIXED_POINT_STEP[name], type(e).__name__), exc_detail(e)))
        if snapshot(tree) != before:
            R.seen("passes_fired", name)
            R.count("pass_fired")
        if not broken:
            v = validate(tree)
            R.count("validations")
            if v:
                # reported once per input; the remaining passes still run (C06 is about them completing)
                found.append(("C05", "tree:%s:after-%s%s" % (v[0], name, ":pass-raised" if raised else ""), "after pass %s: %s" % (name, v[1]), None))
                broken = True
                if deep_recursion:
                    return found, tree      # passes on a broken, very deep tree need not terminate (outside C06)
    try:
        c = None if broken else contract(tree)
    except RecursionError:
        c = None
    R.count("contract_checks")
    if c:
        found.append(("C05", "contract:%s" % c[0], "after the full cleaning sequence: %s" % c[1], None))
    # the deployed driver, on a fresh tree of the same input
    try:
        tree2 = build(text, lang)
        tc2 = TreeCleaner(tree2, save_reports=True, rtl=rtl)
        tc2.clean_all()
        errs = [r for r in tc2.get_reports() if r[1].startswith("'ERROR:'")]
        R.count("clean_all_runs")
        for caller, msg in errs[:3]:
            if deep_recursion and "RecursionError" in msg:
                continue
            found.append(("C06", "clean_all-error-report", "clean_all recorded %s" % msg[:160], None))
    except RecursionError as e:
        if not deep_recursion:
            found.append(("C06", "clean_all-raises:" + exc_key(e), "clean_all raised RecursionError", exc_detail(e)))
    except Exception as e:
        found.append(("C06", "clean_all-raises:" + exc_key(e), "clean_all raised %s" % type(e).__name__, exc_detail(e)))
    return found, tree


def run_shard(prop, desc, R):
    import logging
    logging.disable(logging.CRITICAL)
    import builtins
    import io
    rnd = random.Random("tree:%s:%s" % (desc["seed"], desc["shard"]))
    for _ in range(desc["count"]):
        lang = rnd.choice(W.LANGS)
        kind, text = gen_case(rnd)
        if kind != "deep" and W.depth_estimate(text) > 40:
            R.skip()
            continue
        report(prop, R, text, lang, kind)


def report(prop, R, text, lang, kind):
    import contextlib
    import io
    case = {"text": text, "lang": lang, "kind": kind}
    R.breadcrumb(json.dumps(case))
    with contextlib.redirect_stdout(io.StringIO()), contextlib.redirect_stderr(io.StringIO()):
        found, tree = run_case(prop, R, text, lang, kind)
    R.count("inputs_" + kind)
    nontrivial = False
    if tree is not None:
        cls = {type(n).__name__ for n in tree.allchildren()}
        nontrivial = len(cls) >= 4
    R.case(h64(text, lang), nontrivial, sample={"kind": kind, "lang": lang, "text": text[:300]})
    for (p, key, what, detail) in found:
        if p != prop:
            R.count("findings_belonging_to_" + p)
            continue
        first = R.viol_per_key.get(key, 0) < 1
        vcase = {"text": text, "lang": lang, "kind": kind}
        # recorded before any minimisation: a shrunk variant may hang the pass under test
        R.violation(key, what, vcase, detail)
        if first and len(text) < 6000 and kind != "deep":
            from ..gen.shrink import shrink

            def fails(t):
                with contextlib.redirect_stdout(io.StringIO()), contextlib.redirect_stderr(io.StringIO()):
                    f2, _ = run_case(prop, _NullR(), t, lang, kind)
                return any(k == key for (_, k, _, _) in f2)
            vcase["text"] = shrink(text, fails, max_calls=120)


class _NullR:
    def count(self, *a, **k):
        pass

    def seen(self, *a, **k):
        pass


def replay(prop, case):
    import contextlib
    import io
    import logging
    logging.disable(logging.CRITICAL)
    if case.get("crumb"):
        case = json.loads(case["crumb"])
    with contextlib.redirect_stdout(io.StringIO()):
        found, _ = run_case(prop, _NullR(), case["text"], case["lang"], case.get("kind"))
    return [(k, "[%s] %s" % (p, w), d) for (p, k, w, d) in found]
