"""C08 Rendering is total and complete: every visible word reaches the output.

End-to-end monitor over the whole pipeline (FsOutput -> zip -> wiki.make_wiki -> rl writer / odf writer through
their public entry points, plus the single-article test modes): (M1) no exception / no "giving up",
(M2) every expected word occurs in the text extracted from the PDF, (M3) cleaner ERROR reports are counted,
(M4) the ODF package is a sound zip whose XML parts are well-formed and pass odflint, (M5) network
attempts are recorded.
"""
import io
import json
import os
import random
import re
import shutil
import sys
import zipfile

from ..child import exc_detail, exc_key, h64
from ..gen import grammar

ID = "C08"
LEVEL = "exploration"
CASE_CPU = 300
RULE = ("collections of 1-4 documents of C02's grammar (every section with body text, words unique across the "
        "collection), with/without chapters, template calls resolved from the archive, 0-3 PNG images stored in the "
        "archive and used as thumbnail / inline / gallery / table cell with their own captions (the same image possibly "
        "several times); rendered through the rl and odf writer entry points and through the single-article test "
        "modes; non-trivial = collection has >=40 expected words; distinct = distinct collections / articles")
ASSUMPTIONS = [
    "PDF text extraction (pypdf) is the trusted observer; expected words are unique tokens of <=10 ASCII alphanumerics",
    "ODF completeness is not claimed by the property and not checked; layout quality is not checked",
    "odflint's complaint about the 'mimetype' member header is tolerated, as the repository's own test does",
]
REQUIRED = {"pdf_books_rendered": 10, "pdf_words_checked": 1000, "odf_packages_checked": 10, "single_article_pdf": 20,
            "single_article_odf": 20, "with_images": 5, "with_templates": 5, "multi_article_books": 5}
LEVEL_TEXT = ("Exploration: 48 (quick) / 2000 (thorough) generated collections go through the complete real pipeline to a "
              "PDF and an ODT; the monitor checks every expected word in the extracted PDF text and well-formedness + "
              "odflint of the ODT; 200 / 2e4 single articles go through the writers' test modes.")
LEVEL_NOTE = "Trusts pypdf's text extraction and odflint; images are tiny generated PNGs."
TECHNIQUE = "end-to-end runtime monitor (exception, word-completeness of extracted PDF text, ODF zip/XML/odflint) over generated collections"


def plan(tier, seed):
    n = 16
    books, singles = (5, 15) if tier == "quick" else (125, 1250)
    return [{"shard": i, "books": books, "singles": singles, "seed": seed} for i in range(n)]


def png_bytes(rnd):
    from PIL import Image, ImageDraw
    img = Image.new("RGB", (rnd.choice((60, 120, 300)), rnd.choice((40, 90, 200))), (rnd.randint(0, 255), 200, 120))
    d = ImageDraw.Draw(img)
    d.rectangle([(5, 5), (30, 30)], fill=(255, 0, 0))
    b = io.BytesIO()
    img.save(b, "PNG")
    return b.getvalue()


class Collection:
    """generated collection: articles (title, text, expected words), templates, images"""

    def __init__(self, rnd, narts, with_images=True, with_templates=True, maxwords=60):
        self.rnd = rnd
        self.k = 0
        self.articles = []
        self.templates = {"Tpl": "tplintro {{{1}}} tplend", "Box": "<div>boxed {{{1}}}</div>"} if with_templates else {}
        self.images = {}
        if with_images:
            for i in range(rnd.randint(0, 3)):
                self.images["File:Img%d.png" % (i + 1)] = png_bytes(rnd)
        for i in range(narts):
            title = "Article %s" % "ABCD"[i]
            if self.templates and i == narts - 1 and rnd.random() < 0.4:
                title = rnd.choice(sorted(self.templates))     # an article that shares its bare name with a template
            g = grammar.Gen(rnd, maxwords=maxwords + 1000 * (i + 1), for_clean=True, with_refs=True)
            g.k = 1000 * (i + 1)      # words unique across the collection
            doc = g.document()
            text = grammar.Ser(rnd).document(doc)
            exp = [w for w, c in grammar.denotation(doc) if re.fullmatch(r"[a-z0-9]{1,10}", w)]
            extra = []

            def word():
                self.k += 1
                w = "x%dq" % self.k
                extra.append(w)
                return w

            parts = [text]
            if self.templates and rnd.random() < 0.8:
                for _ in range(rnd.randint(1, 3)):
                    name = rnd.choice(sorted(self.templates))
                    parts.append("\n\n%s {{%s|%s}} %s\n" % (word(), name, word(), word()))
                    extra.append("tplintro" if name == "Tpl" else "boxed")
            if self.images and rnd.random() < 0.6:
                # a floated thumbnail beside several paragraphs, at a varying distance from the page top
                for _ in range(rnd.randint(0, 45)):
                    parts.append("\n\n" + " ".join(word() for _ in range(rnd.randint(3, 14))))
                parts.append("\n\n[[File:%s|thumb|%s]]" % (sorted(self.images)[0][5:], word()))
                for _ in range(rnd.randint(3, 7)):
                    parts.append("\n\n" + " ".join(word() for _ in range(rnd.choice((8, 25, 60, 120)))))
            for im in sorted(self.images):
                for _ in range(rnd.randint(0, 2)):
                    how = rnd.choice(("thumb", "inline", "gallery", "cell", "frame"))
                    name = im[5:]
                    if how == "thumb":
                        al = rnd.choice(("", "", "|left", "|right", "|center", "|none", "|upright", "|120px"))
                        parts.append("\n\n[[File:%s|thumb%s|%s]]\n\n%s\n" % (name, al, word(), word()))
                    elif how == "frame":
                        parts.append("\n\n[[File:%s|frame|%s]]\n\n%s\n" % (name, word(), word()))
                    elif how == "inline":
                        parts.append("\n\n%s [[File:%s|30px]] %s\n" % (word(), name, word()))
                    elif how == "gallery":
                        parts.append("\n\n<gallery>\nFile:%s|%s\nFile:%s|%s\n</gallery>\n" % (name, word(), name, word()))
                    else:
                        parts.append("\n\n{|\n| [[File:%s|thumb|%s]]\n| %s\n|-\n| %s || %s\n|}\n" % (
                            name, word(), word(), word(), word()))
            if self.images and rnd.random() < 0.4:
                # one or two thumbnails closing a section, then (a heading and) a block that does not float
                im = sorted(self.images)[0][5:]
                thumbs = "\n".join("[[File:%s|thumb|%s]]" % (im, word()) for _ in range(rnd.choice((1, 1, 2))))
                nxt = rnd.choice((lambda: "{|\n| %s || %s\n|}" % (word(), word()), lambda: " %s preformatted" % word(), lambda: "----",
                                  lambda: "<center>[[File:%s|50px]]</center>" % im, lambda: "* %s\n* %s" % (word(), word()),
                                  lambda: "<gallery>\nFile:%s|%s\n</gallery>" % (im, word())))()
                eq = rnd.choice(("==", "===", "===", "===="))
                head = ("%s %s %s\n" % (eq, word(), eq)) if rnd.random() < 0.7 else ""
                parts.append("\n\n%s\n\n%s\n%s%s\n\n%s\n" % (word(), thumbs, head, nxt, word()))
            if rnd.random() < 0.35:
                # a cell spanning columns and rows, with real cells in the rows it spans
                cs, rs = rnd.choice((2, 3)), rnd.choice((2, 3))
                rows = ['| colspan="%d" rowspan="%d" | %s || %s' % (cs, rs, word(), word())]
                for _ in range(rs - 1):
                    rows.append("| " + word())
                rows.append("| " + " || ".join(word() for _ in range(cs + 1)))
                parts.append("\n\n{| class=\"wikitable\"\n" + "\n|-\n".join(rows) + "\n|}\n\n%s\n" % word())
            if self.images and rnd.random() < 0.35:
                # a gallery that needs more than one row, every picture with its own caption
                n = rnd.randint(5, 9)
                names = sorted(self.images)
                opt = rnd.choice(("", "", ' perrow="2"', ' perrow="3"'))
                parts.append("\n\n<gallery%s>\n%s\n</gallery>\n\n%s\n" % (
                    opt, "\n".join("File:%s|%s" % (rnd.choice(names)[5:], word()) for _ in range(n)), word()))
            if rnd.random() < 0.12:
                # a table row taller than a page (the writer's first layout attempt fails, it renders again in fail-safe mode)
                parts.append("\n\n{| class=\"wikitable\"\n|-\n| %s || %s\n|}\n\n%s\n" % (
                    " ".join(word() for _ in range(900)), " ".join(word() for _ in range(900)), word()))
                self.tall = True
            self.articles.append({"title": title, "text": "".join(parts), "expected": exp + extra})
        self.chapters = narts > 1 and rnd.random() < 0.5

    def all_expected(self):
        out = []
        for a in self.articles:
            out += a["expected"]
        return out


def build_archive(coll, workdir):
    """the real storage path: FsOutput -> zip_dir -> wiki.make_wiki"""
    import contextlib
    from mwlib.apps.buildzip import zip_dir
    from mwlib.core import metabook, wiki
    from mwlib.network import fetch
    from mwlib.network.siteinfo import get_siteinfo
    d = os.path.join(workdir, "nuwiki")
    fs = fetch.FsOutput(d)
    fs.write_siteinfo(get_siteinfo("en"))
    mb = metabook.Collection(title="Generated Book", subtitle="sub")
    pages = {}
    rev = 100
    for i, a in enumerate(coll.articles):
        if coll.chapters and i % 2 == 0:
            mb.items.append(metabook.Chapter(title="Chapter %d" % (i // 2 + 1), items=[]))
        rev += 1
        # metabooks name the revision they were built from: as a number, as the string the wiki sent, or not at all
        pin = (None, rev, str(rev))[(i + len(a["text"])) % 3]
        mb.append_article(a["title"], revision=pin)
        pages[str(rev)] = {"title": a["title"], "ns": 0, "revisions": [{"revid": rev, "*": a["text"]}]}
    for name, body in coll.templates.items():
        rev += 1
        pages[str(rev)] = {"title": "Template:" + name, "ns": 10, "revisions": [{"revid": rev, "*": body}]}
    for im in coll.images:
        rev += 1
        pages[str(rev)] = {"title": im, "ns": 6, "revisions": [{"*": "description of %s by [[User:Painter]]" % im}]}
    fs.write_pages({"pages": pages})
    for im, data in coll.images.items():
        with open(fs.get_imagepath(im), "wb") as f:
            f.write(data)
        fs.set_db_key("imageinfo", im, {"url": "http://w.test/images/%s" % im[5:], "descriptionurl": "http://w.test/wiki/%s" % im,
                                        "user": "Painter", "size": len(data), "width": 120, "height": 90})
    for a in coll.articles:
        fs.set_db_key("authors", a["title"], ["Ann", "Bob", "ANONIPEDITS:2"])
    fs.dump_json(metabook=mb)
    fs.nfo = {"format": "nuwiki", "base_url": "http://w.test/w/", "script_extension": ".php"}
    fs.write_redirects({})
    fs.write_licenses([])
    fs.write_authors()
    fs.write_html()
    fs.imageinfo.close()
    fs.close()
    z = os.path.join(workdir, "collection.zip")
    zip_dir(d, z)
    return z


_net = []


def _audit(event, args):
    if event in ("socket.connect", "socket.getaddrinfo") and _net and _net[0] is not None:
        _net[0].append((event, repr(args[-1])[:60]))


_audit_installed = []


def pdf_text(path):
    import pypdf
    r = pypdf.PdfReader(path)
    return "\n".join(p.extract_text() or "" for p in r.pages), len(r.pages)


def check_words(text, expected):
    text = text.lower()      # (a label-less link shows its target with the site's capitalisation)
    toks = set(re.findall(r"[a-z0-9]+", text))
    joined = re.sub(r"\s+", "", text)
    missing = [w for w in expected if w.lower() not in toks and w.lower() not in joined]
    return missing


def render_book(R, coll, workdir, idx):
    import contextlib
    from mwlib.core import wiki
    from mwlib.parser.treecleaner import TreeCleaner
    from mwlib.utils.status import Status
    case = {"articles": [{"title": a["title"], "text": a["text"]} for a in coll.articles], "templates": coll.templates,
            "images": sorted(coll.images), "chapters": coll.chapters}
    R.breadcrumb(json.dumps(case)[:900000])
    if not _audit_installed:
        sys.addaudithook(_audit)
        _audit_installed.append(1)
    errors = []
    orig_report = TreeCleaner.report

    def report(self, *args):
        if args and args[0] == "ERROR:":
            errors.append(repr(args[1])[:120])
        return orig_report(self, *args)

    TreeCleaner.report = report
    expected = coll.all_expected()
    narts = len(coll.articles)
    if coll.images:
        R.count("with_images")
    if coll.templates:
        R.count("with_templates")
    if narts > 1:
        R.count("multi_article_books")
    shape = "%s-article%s" % ("multi" if narts > 1 else "single", "+images" if coll.images else "")
    try:
        z = build_archive(coll, workdir)
        # ---- PDF ---------------------------------------------------------------------------------
        from mwlib.writers.rl.writer import writer as rlwriter
        out = os.path.join(workdir, "out.pdf")
        _net[:] = [[]]
        ok = False
        try:
            with contextlib.redirect_stdout(io.StringIO()), contextlib.redirect_stderr(io.StringIO()):
                env = wiki.make_wiki(z)
                st = Status()
                st.stdout = None
                rlwriter(env, output=out, status_callback=st)
            ok = True
        except Exception as e:
            gave_up = "Giving up" in str(e)
            inner = e.__cause__ or e
            R.violation("pdf-raises:%s:%s" % (exc_key(inner), shape),
                        "rl writer %s on a %d-article collection: %s: %s" % ("gave up" if gave_up else "raised", narts,
                                                                             type(inner).__name__, str(inner)[:100]), case, exc_detail(inner))
        finally:
            with contextlib.suppress(Exception):
                env.images.clear()
        R.count("network_attempts_during_render", len(_net[0]))
        if ok:
            R.count("pdf_books_rendered")
            try:
                text, npages = pdf_text(out)
            except Exception as e:
                R.violation("pdf-unreadable:" + type(e).__name__, "the produced PDF does not open: %s" % str(e)[:100], case)
                text = None
            if text is not None:
                missing = check_words(text, expected)
                R.count("pdf_words_checked", len(expected))
                if missing:
                    where = word_kind(coll, missing[0])
                    if set(missing) <= dup_extlink_labels(a["text"] for a in coll.articles):
                        where, shape = "dup-external-link-label-in-reference", "any-mode"
                    R.violation("pdf-word-missing:%s:%s" % (where, shape),
                                "%d of %d expected words are not in the PDF text, first %r (%s)" % (len(missing), len(expected), missing[0], where),
                                dict(case, missing=missing[:10]))
        if errors:
            R.count("cleaner_error_reports_during_render_(C06_matter)", len(errors))
            R.seen("cleaner_errors", errors[0][:80])
        # ---- ODF ---------------------------------------------------------------------------------
        from mwlib.writers.odf.writer import writer as odfwriter
        out2 = os.path.join(workdir, "out.odt")
        try:
            with contextlib.redirect_stdout(io.StringIO()), contextlib.redirect_stderr(io.StringIO()):
                env = wiki.make_wiki(z)
                st = Status()
                st.stdout = None
                odfwriter(env, output=out2, status_callback=st)
            prob = odf_problem(out2)
            R.count("odf_packages_checked")
            if prob:
                R.violation("odf-invalid:%s:%s" % (prob[0], shape), prob[1], case)
            else:
                # not a completeness claim (the property makes none for ODF): only that the package is
                # a rendering of *this* collection at all - each article contributes some of its words
                with zipfile.ZipFile(out2) as zf:
                    xml = zf.read("content.xml").decode("utf-8", "replace").lower()
                for a in coll.articles:
                    if not any(w.lower() in xml for w in a["expected"][:50]):
                        R.violation("odf-article-absent:" + shape, "none of the words of article %r are in the ODF content" % a["title"], case)
                        break
        except Exception as e:
            R.violation("odf-raises:%s:%s" % (exc_key(e), shape), "odf writer raised %s: %s" % (type(e).__name__, str(e)[:100]), case, exc_detail(e))
        finally:
            with contextlib.suppress(Exception):
                env.images.clear()
    finally:
        TreeCleaner.report = orig_report
        _net[:] = [None]
    R.case(h64(json.dumps(case, sort_keys=True)), len(expected) >= 40,
           sample={"articles": narts, "images": sorted(coll.images), "chapters": coll.chapters, "expected_words": len(expected)})


def dup_extlink_labels(texts):
    """label words of the second and later external links to one URL inside one <ref> (the cleaner removes those
    links on purpose: C07's open finding remove_dup_links_in_refs)"""
    out = set()
    for text in texts:
        for body in re.findall(r"<ref[^>/]*>(.*?)</ref>", text, re.S):
            seen = set()
            for url, label in re.findall(r"\[(https?://[^\s\]]+)\s+([^\]]*)\]", body):
                if url in seen:
                    out.update(re.findall(r"[a-z0-9]+", label))
                seen.add(url)
    return out


def word_kind(coll, w):
    for a in coll.articles:
        t = a["text"]
        if w in t:
            i = t.index(w)
            ctx = t[max(0, i - 60):i]
            if "{{" in ctx and "}}" not in ctx.split("{{")[-1]:
                return "template-argument"
            if "[[File:" in ctx and "]]" not in ctx.split("[[File:")[-1]:
                return "image-caption"
            if "<gallery>" in ctx and "</gallery>" not in ctx:
                return "gallery-caption"
            if "<ref>" in ctx and "</ref>" not in ctx.split("<ref>")[-1]:
                return "reference"
            if re.search(r"\n[|!][^\n]*$", ctx):
                return "table-cell"
            return "body"
    if w in ("tplintro", "tplend", "boxed"):
        return "template-body"
    return "unknown"


_odflint = []


def odf_problem(path):
    from lxml import etree
    try:
        with zipfile.ZipFile(path) as z:
            bad = z.testzip()
            if bad:
                return ("corrupt-member", "ODF package member %r is corrupt" % bad)
            for n in ("content.xml", "styles.xml", "meta.xml"):
                try:
                    etree.fromstring(z.read(n))
                except KeyError:
                    return ("member-missing", "ODF package lacks %s" % n)
                except etree.XMLSyntaxError as e:
                    return ("xml-not-wellformed", "%s is not well-formed: %s" % (n, str(e)[:100]))
    except zipfile.BadZipFile as e:
        return ("not-a-zip", "ODF package is not a zip: %s" % e)
    # odflint in-process (the repository's own test tolerates the 'mimetype' message)
    if not _odflint:
        argv = sys.argv[:]
        stderr = sys.stderr
        mod = type(sys)("odflint")
        try:
            sys.stderr = io.StringIO()
            del sys.argv[1:]
            try:
                with open("/venv/bin/odflint", "rb") as f:
                    exec(compile(f.read(), "/venv/bin/odflint", "exec"), mod.__dict__)
            except SystemExit:
                pass
        finally:
            sys.argv[:] = argv
            sys.stderr = stderr
        _odflint.append(mod)
    so, se = sys.stdout, sys.stderr
    try:
        sys.stdout = sys.stderr = io.StringIO()
        try:
            _odflint[0].lint(path)
        except SystemExit:
            pass
        msg = sys.stdout.getvalue()
    finally:
        sys.stdout, sys.stderr = so, se
    if msg and "mimetype" not in msg:
        return ("odflint", "odflint: %s" % msg.strip()[:200])
    return None


def single_article(R, rnd, workdir):
    """the writers' single-article test modes"""
    import contextlib
    import mwlib.parser.expander  # noqa
    from mwlib.parser import advtree
    from mwlib.parser.refine.uparser import parse_string
    from mwlib.parser.treecleaner import TreeCleaner
    from ..gen.db import SynthDB
    g = grammar.Gen(rnd, maxwords=rnd.choice((20, 60, 120)), for_clean=True)
    doc = g.document()
    text = grammar.Ser(rnd).document(doc)
    expected = [w for w, c in grammar.denotation(doc) if re.fullmatch(r"[a-z0-9]{1,10}", w)]
    case = {"single": text}
    R.breadcrumb(json.dumps(case))
    db = SynthDB({}, "en")
    # rl
    try:
        from reportlab.lib.units import cm
        from reportlab.platypus.doctemplate import BaseDocTemplate, NextPageTemplate
        from mwlib.writers.rl.pagetemplates import WikiPage
        from mwlib.writers.rl.writer import RlWriter
        with contextlib.redirect_stdout(io.StringIO()), contextlib.redirect_stderr(io.StringIO()):
            tree = parse_string("Test", text, db, lang="en")
            advtree.build_advanced_tree(tree)
            TreeCleaner(tree).clean_all()
            rw = RlWriter(test_mode=True)
            rw.wikiTitle = "testwiki"
            rw.tmpdir = workdir
            elements = rw.write(tree)
            fn = os.path.join(workdir, "single.pdf")
            margin = 2 * cm
            d = BaseDocTemplate(fn, topMargin=margin, leftMargin=margin, rightMargin=margin, bottomMargin=margin)
            d.addPageTemplates(WikiPage("Title"))
            elements.insert(0, NextPageTemplate("Title"))
            d.build(elements)
        R.count("single_article_pdf")
        ptext, _ = pdf_text(fn)
        missing = check_words(ptext, expected)
        R.count("pdf_words_checked", len(expected))
        if missing and set(missing) <= dup_extlink_labels([case["single"]]):
            R.violation("pdf-word-missing:dup-external-link-label-in-reference:any-mode",
                        "%d of %d words missing from the PDF text, first %r" % (len(missing), len(expected), missing[0]),
                        dict(case, missing=missing[:10]))
        elif missing:
            R.violation("pdf-word-missing:single-article-test-mode", "%d of %d words missing from the PDF text, first %r" % (
                len(missing), len(expected), missing[0]), dict(case, missing=missing[:10]))
    except Exception as e:
        R.violation("pdf-raises:%s:single-article-test-mode" % exc_key(e), "RlWriter(test_mode=True) raised %s: %s" % (type(e).__name__, str(e)[:100]), case, exc_detail(e))
    # odf
    try:
        from mwlib.writers.odf.writer import ODFWriter, preprocess
        with contextlib.redirect_stdout(io.StringIO()), contextlib.redirect_stderr(io.StringIO()):
            tree = parse_string("Test", text, db, lang="en")
            advtree.build_advanced_tree(tree)
            preprocess(tree)
            ow = ODFWriter()
            ow.writeTest(tree)
            fn2 = os.path.join(workdir, "single")
            ow.getDoc().save(fn2, True)
        R.count("single_article_odf")
        prob = odf_problem(fn2 + ".odt")
        if prob:
            R.violation("odf-invalid:%s:single-article-test-mode" % prob[0], prob[1], case)
    except Exception as e:
        R.violation("odf-raises:%s:single-article-test-mode" % exc_key(e), "ODFWriter test mode raised %s: %s" % (type(e).__name__, str(e)[:100]), case, exc_detail(e))
    R.case(h64(text), len(expected) >= 20)


def run_shard(desc, R):
    import logging
    import tempfile
    logging.disable(logging.CRITICAL)
    rnd = random.Random("C08:%s:%s" % (desc["seed"], desc["shard"]))
    base = os.path.join(os.environ.get("VERIF_SCRATCH_DIR", "/var/tmp"), "c08-%d" % os.getpid())
    os.makedirs(base, exist_ok=True)
    tempfile.tempdir = base
    try:
        for i in range(desc["books"]):
            wd = os.path.join(base, "b%d" % i)
            os.makedirs(wd)
            narts = rnd.choice((1, 1, 2, 3, 4))
            coll = Collection(rnd, narts, with_images=rnd.random() < 0.6, with_templates=rnd.random() < 0.7,
                              maxwords=rnd.choice((30, 60, 120)))
            render_book(R, coll, wd, i)
            shutil.rmtree(wd, ignore_errors=True)
        for i in range(desc["singles"]):
            wd = os.path.join(base, "s%d" % i)
            os.makedirs(wd)
            single_article(R, rnd, wd)
            shutil.rmtree(wd, ignore_errors=True)
    finally:
        shutil.rmtree(base, ignore_errors=True)


def replay(case):
    print("the witness file holds the articles/templates/images of the collection; re-run the shard to reproduce")
    return []
