"""C16 - see DESIGN.md section 4.  Engine: vlib/mon/qengine.py, oracle: vlib/mon/qmodel.py."""
from . import qcommon

ID = "C16"
LEVEL = "exploration"
ASSUMPTIONS = [
    "the socket is replaced by an in-memory object; everything above it (rpcserver.Server.handle_client, "
    "QPlugin, workq, gevent hub) is the real code",
    "requests issued between two 'run' ops are dispatched in issue order, each atomically up to its first "
    "suspension point - the interleavings a cooperative gevent server can exhibit",
    "time is virtual (qs.jobs.time replaced); the server's periodic loops run exactly at 'tick' ops",
]
REQUIRED = {"histories_checked": 500, "obs_handoffs": 20, "obs_nonblocking_pulls": 20}


def plan(tier, seed):
    return qcommon.plan(ID, tier, seed)


def run_shard(desc, R):
    return qcommon.run_shard(ID, desc, R)


def replay(case):
    return qcommon.replay(ID, case)

REQUIRED.update({"tcp_stress_runs": 3, "tcp_rehandouts": 3, "obs_double_place_one_waiter": 5, "obs_disconnect_while_blocked": 5,
                 "obs_disconnect_holding": 5, "obs_choice_points": 5})
RULE = ("histories over C16's alphabet {add(channel,prio,id), pull(worker,channels), run, finish, kill, tick, "
        "disconnect} with 3 workers, 2 channels, <=4 jobs: every history to the DFS depth (prefix replay, "
        "symmetry-reduced on unused workers; every vector of random.choice outcomes for up to 4 choice points), "
        "plus random histories biased to the rendez-vous; each ends with a draining worker; non-trivial = at "
        "least one job was handed to a worker; distinct = distinct (op list, choice vector)")
LEVEL_TEXT = ("Exploration of real executions: every history of the quantifier's alphabet to depth 4 (quick) / 6 "
              "(thorough) and random ones to length 14 run on the real server code; an offline checker over the "
              "recorded client-boundary history (unique job ids, drain at the end) decides no-loss / "
              "exactly-once. Depth 8 is covered only by sampling.")
LEVEL_NOTE = ("Trusts the in-memory socket, the quiescence detector and the 300-line sequential model; "
              "interleavings deeper than the bound are covered only by sampling; a loopback-TCP stress of the real "
              "qserve process with OS-scheduled clients runs as extra shards.")
TECHNIQUE = "recorded history + executable sequential model (offline conservation/exactly-once checker), bounded-exhaustive and random schedules on the real gevent server"
