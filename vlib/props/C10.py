"""C10 Tokenization is lossless: tokens tile the input.

Monitor: tiling invariant over the raw result of utoken.scan(text), evaluated on every
execution; workload: bounded-exhaustive lexeme sequences + random long strings; thorough
tier additionally scans under an ASan/UBSan build of _uscan.cc.
"""
import itertools
import random

ID = "C10"
LEVEL = "exploration"
SAN = True
RULE = ("every sequence of <=3 (quick) / <=4 (thorough) lexemes from a %d-lexeme scanner alphabet, "
        "each scanned bare and after '{|\\n' (table mode), plus random strings of 1..5000 chars "
        "over the same alphabet; each raw utoken.scan() result and each utoken.tokenize() result (CompatScanner) "
        "is checked by the tiling monitor, and so is tokenize(replace_tags(text), uniquifier) over a tag alphabet "
        "(depth 4 / 5); single tokens longer than 65535 characters; "
        "distinct = distinct input strings (hashed per shard; shards partition the enumeration by "
        "first lexeme), non-trivial = result has >=2 tokens or a non-text token")
ASSUMPTIONS = [
    "the scanner under test is _uscan.cc compiled from the working tree (re2c is not installed, "
    "so an edit to _uscan.re alone is invisible to every build)",
    "a clean ASan/UBSan run means no report on the scans performed, not memory safety",
]
REQUIRED = {"tiling_checks": 1000, "ebad_gaps_seen": 1, "nul_stops_seen": 1, "compat_tiling_checks": 1000, "uniq_tiling_checks": 10000,
            "long_token_inputs": 10}

EBAD = ""
LEX = [
    "\n", " ", "\t", "{|", ":{|", "|}", "|-", "|", "!", "|+", "||", "|!", "!!",
    "=", "== ", "===", "*", "#", ";", ":", "----", "''", "'''''", "[[", "]]", "[", "]",
    "http://a", "https://b.c/d?e=f", "//a", "mailto:a@b", "ftp://a", "irc://a", "news:a",
    "__TOC__", "__NOTOC__", "_", "&amp;", "&#x41;", "&#65;", "&#;", "&", "&#0;", "&#xD800;", "&#x110000;", "&#xEBAD;", "&#127;", "&#55357;&#56832;", "<b>", "</b>", "<br/>",
    "<!--x-->", "<!--", "-->", "<", ">", "/", "\x7fUNIQ-abc-1-0f-QINU\x7f", "\x7f", "UNIQ-",
    EBAD, "\x00", "a", "Z9", "é", "\U0001d518", "-", "+", ".", "\r",
]
UNIQ_LEX = ['<foo title="', '<video ', '<b class="', '">', '/>', '>', '<nowiki>a b</nowiki>', '<math>x</math>', "<pre>p</pre>",
            ' ', 'x', '"', '</foo>', '<ref name="', "'", "<ref>r</ref>", "\n", "[[", "]]", "|"]
assert len(LEX) == len(set(LEX))
RULE = RULE % len(LEX)


def tiling_error(text, toks):
    """None if toks tile text as C10 states, else a description."""
    nul = text.find("\x00")
    end = nul if nul >= 0 else len(text)
    pos = 0
    gaps = 0
    for i, t in enumerate(toks):
        if not (isinstance(t, tuple) and len(t) == 3):
            return "token %d is not a (type,start,len) triple: %r" % (i, t)
        ty, st, ln = t
        if ln <= 0:
            return "token %d has non-positive length %r" % (i, t)
        if st < pos:
            return "token %d overlaps/goes backwards: start %d < %d" % (i, st, pos)
        if st > pos:
            gap = text[pos:st]
            if gap.strip(EBAD):
                return "token %d leaves uncovered non-EBAD text %r at %d" % (i, gap, pos)
            gaps += 1
        pos = st + ln
        if pos > end:
            return "token %d ends at %d beyond end of text %d" % (i, pos, end)
    if pos < end:
        tail = text[pos:end]
        if tail.strip(EBAD):
            return "tokens end at %d, text ends at %d: uncovered %r" % (pos, end, tail[:40])
        gaps += 1
    rebuilt = "".join(text[s:s + n] for _, s, n in toks)
    if rebuilt.replace(EBAD, "") != text[:end].replace(EBAD, ""):
        return "concatenated spans do not reproduce the input"
    return None, gaps, nul >= 0


def plan(tier, seed):
    n = 16
    depth = 3 if tier == "quick" else 4
    shards = [{"kind": "enum", "shard": i, "n": n, "depth": depth, "seed": seed} for i in range(n)]
    nr = 16
    per = 1500 if tier == "quick" else 40000
    shards += [{"kind": "random", "shard": i, "count": per, "seed": seed} for i in range(nr)]
    shards += [{"kind": "long", "shard": 0, "seed": seed}]
    shards += [{"kind": "uniq", "shard": i, "n": 8, "depth": 4 if tier == "quick" else 5, "seed": seed} for i in range(8)]
    if tier == "thorough":
        shards += [{"kind": "enum", "shard": i, "n": n, "depth": 3, "seed": seed, "san": True}
                   for i in range(n)]
        shards += [{"kind": "random", "shard": 100 + i, "count": 4000, "seed": seed, "san": True}
                   for i in range(8)]
    return shards


_tok = []


def check_compat(text, R):
    """the same tiling law on the CompatScanner output (what the parser consumes)"""
    if not _tok:
        from mwlib.parser.token import utoken
        _tok.append(utoken.tokenize)
    if not text:
        return
    try:
        toks = _tok[0](text)
    except Exception:
        R.count("compat_tokenize_raised_(C01_matter)")
        return
    r = tiling_error(text, [(t.type, t.start, t.len) for t in toks])
    R.count("compat_tiling_checks")
    if isinstance(r, str):
        R.violation("compat-tiling:" + _kind(r), "utoken.tokenize: " + r, {"text": text, "compat": True},
                    detail=repr(toks[:40]))


def check_one(text, scan, R, seen, crumb):
    if crumb:
        R.breadcrumb(text)
    else:
        check_compat(text, R)
    try:
        toks = scan(text)
    except Exception as e:  # the scanner has no business raising
        R.violation("scan-raises:%s" % type(e).__name__, "utoken.scan raised %r" % e,
                    {"text": text})
        R.case(text, False)
        return
    r = tiling_error(text, toks)
    R.count("tiling_checks")
    if isinstance(r, str):
        R.violation("tiling:" + _kind(r), r, {"text": text}, detail=repr(toks[:50]))
        nontrivial = True
    else:
        _, gaps, nul = r
        if gaps:
            R.count("ebad_gaps_seen")
        if nul:
            R.count("nul_stops_seen")
        nontrivial = len(toks) >= 2 or any(t[0] != 1 for t in toks)
        for t in toks:
            seen.add(t[0])
    h = hash(text)
    R.evaluations += 1
    if nontrivial:
        R.hashes.add(h)
    if len(R.samples) < 3 and len(toks) >= 3 and R.evaluations % 977 == 5:
        R.samples.append({"text": text, "tokens": [list(t) for t in toks[:12]]})


def _kind(msg):
    for k in ("non-positive", "overlaps", "uncovered", "beyond end", "do not reproduce", "triple"):
        if k in msg:
            return k.replace(" ", "-")
    return "other"


def run_shard(desc, R):
    from mwlib.parser.token import utoken
    scan = utoken.scan
    seen = set()
    crumb = bool(desc.get("san"))
    if desc["kind"] == "long":
        # single tokens longer than 16-bit lengths (merged text, comments, URLs, tags, runs)
        for n in (65535, 65536, 65537, 70001, 131073):
            for mk in (lambda n: "a" * n, lambda n: "ab cd, " * (n // 7 + 1), lambda n: "<!--" + "x" * n + "-->",
                       lambda n: "http://h/" + "p" * n, lambda n: "[http://h/" + "p" * n + " l]",
                       lambda n: "<b class=" + "x" * n + ">", lambda n: "=" * n, lambda n: " " * n + "{|",
                       lambda n: "\n" * n, lambda n: "\n" + " \n" * (n // 2), lambda n: "'" * n, lambda n: "_" * n,
                       lambda n: "-" * n, lambda n: ":" * n + "{|", lambda n: "é" * n, lambda n: "&" + "a" * n + ";",
                       lambda n: "\x7fUNIQ-" + "a" * n + "-1-0-QINU\x7f", lambda n: "|" + "-" * n):
                body = mk(n)
                for text in (body, "x\n" + body + "\nfoo [[bar]]", "{|\n" + body + "\n|}"):
                    check_one(text, scan, R, seen, crumb)
                    R.count("long_token_inputs")
    elif desc["kind"] == "uniq":
        # the parser's own sequence: opaque regions replaced by markers, then tokenize(txt, uniquifier=u);
        # the tokens must tile the marker-bearing text (a tag that is not whitelisted is demoted to text)
        from mwlib.utils import uniq
        n, sh = desc["n"], desc["shard"]
        for d in range(1, desc["depth"] + 1):
            for i, tup in enumerate(itertools.product(UNIQ_LEX, repeat=d)):
                if i % n != sh:
                    continue
                text = "".join(tup)
                u = uniq.Uniquifier()
                try:
                    txt = u.replace_tags(text)
                    toks = utoken.tokenize(txt, uniquifier=u)
                except Exception:
                    R.count("compat_tokenize_raised_(C01_matter)")
                    continue
                r = tiling_error(txt, [(t.type, t.start, t.len) for t in toks])
                R.count("uniq_tiling_checks")
                R.evaluations += 1
                if "\x7f" in txt:
                    R.hashes.add(hash(("uniq", text)))
                if isinstance(r, str):
                    R.violation("uniq-tiling:" + _kind(r), "tokenize(replace_tags(text), uniquifier): " + r,
                                {"text": text, "uniq": True}, detail=repr(toks[:40]))
    elif desc["kind"] == "enum":
        n, sh = desc["n"], desc["shard"]
        for d in range(1, desc["depth"] + 1):
            firsts = [i for i in range(len(LEX)) if i % n == sh]
            for f in firsts:
                for rest in itertools.product(LEX, repeat=d - 1):
                    text = LEX[f] + "".join(rest)
                    check_one(text, scan, R, seen, crumb)
                    check_one("{|\n" + text, scan, R, seen, crumb)
        R.count("enumerated_depth_%d_complete" % desc["depth"])
    else:
        rnd = random.Random("C10:%s:%s" % (desc["seed"], desc["shard"]))
        for _ in range(desc["count"]):
            k = rnd.choice((3, 8, 20, 60, 200, 800))
            parts = []
            for _ in range(rnd.randint(1, k)):
                x = rnd.random()
                if x < 0.75:
                    parts.append(rnd.choice(LEX))
                elif x < 0.9:
                    parts.append(rnd.choice(("foo", "bar baz", "\n\n", "\n \n", " {|", "\n|-\n| ", "\n! ", "|| ")))
                else:
                    parts.append(chr(rnd.choice((rnd.randint(1, 0x7f), rnd.randint(0x80, 0x2fff),
                                                 rnd.randint(0xe000, 0xffff), rnd.randint(0x10000, 0x10ffff)))))
            check_one("".join(parts)[:5000], scan, R, seen, crumb)
    for t in seen:
        R.seen("token_types", int(t))
    # hashes are ints here; convert to short strings for JSON/union in the parent
    R.hashes = {("%x" % (h & 0xFFFFFFFFFFFFFFFF)) for h in R.hashes}
    if desc.get("san"):
        R.count("scans_under_asan_ubsan", R.evaluations)


def replay(case):
    from mwlib.parser.token import utoken
    text = case.get("text")
    if text is None:
        text = case.get("last_case") or ""
    if case.get("uniq"):
        from mwlib.utils import uniq
        u = uniq.Uniquifier()
        txt = u.replace_tags(text)
        toks = [(t.type, t.start, t.len) for t in utoken.tokenize(txt, uniquifier=u)]
        r = tiling_error(txt, toks)
        return [("uniq-tiling:" + _kind(r), r, repr(toks[:80]))] if isinstance(r, str) else []
    if case.get("compat"):
        toks = [(t.type, t.start, t.len) for t in utoken.tokenize(text)]
        r = tiling_error(text, toks)
        return [("compat-tiling:" + _kind(r), r, repr(toks[:80]))] if isinstance(r, str) else []
    toks = utoken.scan(text)
    r = tiling_error(text, toks)
    if isinstance(r, str):
        return [("tiling:" + _kind(r), r, repr(toks[:80]))]
    return []

LEVEL_TEXT = ("Exploration: the tiling monitor observes every scan of a bounded-exhaustive lexeme "
              "enumeration (depth 3 quick, depth 4 thorough, 64 lexemes, table mode on/off) and of random "
              "long strings; the thorough tier repeats depth 3 under an ASan/UBSan build of the scanner. "
              "Held means: no refuting scan among those executed.")
LEVEL_NOTE = ("Trusts the tiling oracle (40 lines) and that _uscan.cc (not the .re) is what ships; says "
              "nothing about strings outside the enumerated/random set.")
TECHNIQUE = "runtime invariant monitor on scanner output over bounded-exhaustive + random inputs; ASan/UBSan"
