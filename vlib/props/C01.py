"""C01 Parsing is total: any wikitext yields an article tree, never an exception.

Monitors at the parse_string boundary: (M1) exception, (M2) result shape, (M3) step-clock hang
budget, (M4) growth ladders on adversarial families, (M5, thorough) same workload with the scanner
under ASan/UBSan.
"""
import json
import random
import re

from ..child import exc_detail, exc_key, h64

ID = "C01"
LEVEL = "exploration"
SAN = True
CASE_CPU = 60   # seconds of CPU one parse may burn before the supervisor calls it a blow-up (typical: 0.01 s)
RULE = ("token soup / structured / near-valid mutations of the repository's own snippets, 1..300 tokens (quick) or "
        "..2000 (thorough), x {no wikidb, empty wiki database, template universe with cycles} x 12 site languages, plus doubling "
        "ladders n,2n,4n,8n on %d adversarial families; inputs whose estimated markup nesting exceeds 40 are "
        "skipped (outside the quantifier) and counted; non-trivial = input has >=3 distinct markup token kinds "
        "and the tree has >=2 node classes besides Article/Text; distinct = distinct (input, db kind, language)")
ASSUMPTIONS = [
    "hang = more than 1e6 + 5e3*len(input) logical steps (function entries + loop iterations inside /repo/src); "
    "ordinary parsing needs <500 steps per character",
    "growth is measured up to 8n tokens, not asymptotically; an alarm needs a ratio >= 32 on two consecutive doublings",
    "Cython and C++ code does not tick the step clock",
]
REQUIRED = {"attribute_documents": 5000, "parses_completed": 1000, "ladders_completed": 10, "shape_checks": 1000, "with_templates": 100}
LEVEL_TEXT = ("Exploration: tens of thousands (quick) to millions (thorough) of generated inputs over the full wikitext "
              "alphabet parsed by the real parse_string under an exception monitor, a result-shape monitor, a "
              "deterministic step-clock hang budget and growth ladders; thorough repeats a slice under an ASan/UBSan "
              "scanner build. A sweep of 28 tags x 20 attribute names x 22 values the name does not suggest (and all pairs "
              "of 33 image options) and template universes whose templates include themselves from inside <ref>/<poem>/"
              "gallery bodies are part of both tiers.")
LEVEL_NOTE = "Says nothing about inputs outside the generated set; polynomial growth is judged on ladders up to 8n only."
TECHNIQUE = "runtime boundary monitors (exception, shape, sys.monitoring step budget, growth ladder) over fuzzed inputs; ASan/UBSan"

from ..gen import wikitext as W  # noqa: E402

RULE = RULE % len(W.FAMILIES)
TEMPLATE_BODIES = [
    "tee {{{1|d}}} {{box}}", "<div class=x>b {{{1}}}</div>", "{{loop}}", "{{a}}{{b}}", "{|\n|{{{1}}}\n|}", "{{{1}}}",
    "<noinclude>doc</noinclude><includeonly>inc</includeonly>", "<onlyinclude>oi</onlyinclude> rest",
    "[[File:Deep.png|thumb|{{{1|cap}}}]]", "\n* a\n* b\n", "{{#if:{{{1|}}}|yes|no}}", "'''{{{1}}}", "</div>", "{{",
    "}}", "{{{", "<ref>r {{{1}}}</ref>", "== h ==", "|-\n| c", "{{#switch:{{{1}}}|a=A|b|c=BC|#default=D}}",
    # templates that include themselves / each other from inside a tag whose body is expanded and parsed on its own
    "y<ref>{{loop}}</ref>", "<poem>p {{loop}}</poem>", "<gallery>\nFile:A.png|{{loop}}\n</gallery>", "<ref>{{a}}</ref>", "<ref>{{b}}</ref>",
    "{{#tag:ref|{{loop}}}}", "<ref name=\"l\">{{t}}</ref>",
]
TEMPLATE_KEYS = ["t", "T2", "box", "loop", "a", "b", "missing-not-here"]


def plan(tier, seed):
    n = 16
    if tier == "quick":
        shards = [{"kind": "fuzz", "shard": i, "count": 1500, "maxtok": 120, "seed": seed} for i in range(n)]
        shards += [{"kind": "ladder", "shard": i, "n": n, "base": 30, "seed": seed} for i in range(n)]
    else:
        shards = [{"kind": "fuzz", "shard": i, "count": 60000, "maxtok": 600, "seed": seed} for i in range(n)]
        shards += [{"kind": "ladder", "shard": i, "n": n, "base": 120, "seed": seed} for i in range(n)]
        shards += [{"kind": "fuzz", "shard": 100 + i, "count": 4000, "maxtok": 200, "seed": seed, "san": True}
                   for i in range(8)]
    shards += [{"kind": "attrs", "shard": i, "n": n, "seed": seed} for i in range(n)]
    return shards


ATTR_TAGS = ["div", "span", "table", "tr", "td", "th", "caption", "ul", "ol", "li", "p", "ref", "references", "gallery", "font",
             "center", "h2", "br", "hr", "pre", "blockquote", "source", "poem", "imagemap", "timeline", "math", "b", "sup"]


def attr_documents():
    """every structural tag x attribute name x value the name does not suggest, in HTML and in table syntax"""
    for t in ATTR_TAGS:
        for a in W.ATTR_NAMES:
            for v in W.ATTR_VALUES:
                yield "<%s %s=%s>x</%s> y" % (t, a, v if v and " " not in v else '"%s"' % v, t)
    for a in W.ATTR_NAMES:
        for v in W.ATTR_VALUES:
            q = '"%s"' % v
            yield "{| %s=%s\n|+ %s=%s | c\n|- %s=%s\n| %s=%s | x\n! %s=%s | y\n|}" % (a, q, a, q, a, q, a, q, a, q)
            yield "<gallery %s=%s>\nFile:A.png|x\n</gallery>[[File:A.png|%s=%s|thumb|c]]" % (a, q, a, v)
    # numbers longer than the interpreter converts, wherever markup takes a number
    h = W.HUGE_INT
    for body in ("rect 1 2 3 %s [[T]]", "circle 1 %s 3 [[T]]", "poly 1 2 %s 4 [[T]]", "rect %s 2 3 4 [[T]]"):
        yield "<imagemap>\nFile:a.png|100px\n%s\n</imagemap>" % (body % h)
    for t in ("&#%s;", "&#x%s;", "{{#expr:%s+1}}", "{{padleft:x|%s}}", "{{#time:Y|%s}}", "{{formatnum:%s}}", "<ol start=%s><li>x</ol>",
              "<gallery perrow=%s widths=%s>\nFile:A.png\n</gallery>", "{|\n| colspan=%s | x\n|}", "<li value=%s>x", "{{#titleparts:a/b|%s}}",
              "<timeline>\nImageSize = width:%s\n</timeline>", "<hiero>%s</hiero>", "[[File:A.png|page=%s]]", "<font size=%s>x</font>"):
        yield t.replace("%s", h)
    # a heading line cut by table markup, with a tag between the pieces (first met by the thorough fuzz)
    for t in ("hiero", "ref", "math", "gallery", "b", "th", "div", "poem", "nowiki"):
        for a, b in (("=|=", "=qux<TH ref>C="), ("== a | b ==", "== c <td> d =="), ("=|", "|="), ("= x\n|-\n| y =", "= z =")):
            yield "{|\n|\n%s\n{|\n|}<%s> </%s>\n%s" % (a, t, t, b)
            yield "{|\n! %s\n| <%s>q</%s>\n|}\n%s" % (a, t, t, b)
    for o1 in W.IMG_OPTS:
        for o2 in W.IMG_OPTS:
            yield "[[File:Pic.png|%s|%s|cap]] [[Image:a.jpg|%s]]" % (o1, o2, o1)


_snips = []


def snippets():
    if not _snips:
        import os
        p = os.path.join(os.environ.get("VERIF_REPO", "/repo"), "tests", "mwlib", "rl", "snippets.txt")
        try:
            with open(p, encoding="utf-8") as f:
                _snips.extend(s for s in f.read().split("\x0c\n") if s.strip())
        except OSError:
            pass
        if not _snips:
            _snips.append("== h ==\n* a\n{|\n|x\n|}\n")
    return _snips


def make_db(rnd, lang):
    from mwlib.parser.dummydb import DummyDB
    from ..gen.db import SynthDB
    k = rnd.random()
    if k < 0.4:
        return None, "none"
    if k < 0.55:
        return SynthDB({}, lang), {"pages": {}}    # a wiki database without any template page
    pages = {}
    for key in rnd.sample(TEMPLATE_KEYS[:-1], rnd.randint(0, 6)):
        body = rnd.choice(TEMPLATE_BODIES)
        if rnd.random() < 0.3:
            body += W.soup(rnd, rnd.randint(1, 6))
        pages[key] = body
    return SynthDB(pages, lang), {"pages": pages}


def gen_input(rnd, maxtok):
    k = rnd.random()
    ntok = int(maxtok ** rnd.random()) + 1
    if k < 0.35:
        return W.soup(rnd, ntok)
    if k < 0.75:
        return W.structured(rnd, ntok)
    base = rnd.choice(snippets())
    return W.mutate(rnd, base[:4000], rnd.randint(1, 8))


def shape_error(root):
    from mwlib.parser import nodes
    if not isinstance(root, nodes.Article):
        return "result is %s, not Article" % type(root).__name__
    stack = [root]
    n = 0
    while stack:
        nd = stack.pop()
        n += 1
        if not isinstance(nd, nodes.Node):
            return "descendant %r is not a Node" % (type(nd).__name__,)
        ch = nd.children
        if not isinstance(ch, list):
            return "%s.children is %s" % (type(nd).__name__, type(ch).__name__)
        if isinstance(nd, nodes.Text) and not isinstance(nd.caption, str):
            return "Text caption is %s" % type(nd.caption).__name__
        stack.extend(ch)
    return None


def budget_for(raw):
    return 10 ** 6 + 5000 * len(raw)


def parse_once(raw, db, lang, funcs=None):
    """returns (verdict, key, what, detail, tree, ticks)"""
    from mwlib.parser.refine.uparser import parse_string
    from ..mon import stepclock
    tree = None
    try:
        with stepclock.budget(budget_for(raw), funcs) as st:
            tree = parse_string("T", raw, db, lang=lang)
        ticks = st["count"]
    except stepclock.StepBudgetExceeded as e:
        return "violated", "hang:" + exc_key(e).split("@", 1)[1], "parse exceeded %d steps for %d chars" % (
            budget_for(raw), len(raw)), exc_detail(e), None, budget_for(raw)
    except RecursionError as e:
        return "recursion", "raises:" + exc_key(e), "RecursionError", exc_detail(e), None, 0
    except MemoryError as e:
        return "violated", "raises:MemoryError", "MemoryError", exc_detail(e), None, 0
    except Exception as e:
        return "violated", "raises:" + exc_key(e), "parse_string raised %s: %s" % (type(e).__name__, str(e)[:120]), \
            exc_detail(e), None, 0
    return "ok", None, None, None, tree, ticks


def db_from(spec, lang):
    from mwlib.parser.dummydb import DummyDB
    from ..gen.db import SynthDB
    if spec == "none":
        return None
    if spec == "dummy":
        return DummyDB(lang)
    return SynthDB(spec["pages"], lang)


def report_violation(R, key, what, detail, raw, dbspec, lang):
    from ..gen.shrink import shrink

    def fails(t):
        v, k, _, _, _, _ = parse_once(t, db_from(dbspec, lang), lang)
        return k == key and (v == "violated" or (v == "recursion" and W.depth_estimate(t) <= 40))

    small = raw
    if R.viol_per_key.get(key, 0) < 2 and len(raw) < 20000:
        small = shrink(raw, fails)
    R.violation(key, what, {"raw": small, "db": dbspec, "lang": lang, "original_len": len(raw)}, detail)


def run_shard(desc, R):
    import logging
    logging.disable(logging.CRITICAL)
    import sys
    rnd = random.Random("C01:%s:%s:%s" % (desc["kind"], desc["seed"], desc["shard"]))
    classes = set()
    if desc["kind"] == "ladder":
        fams = sorted(W.FAMILIES)
        for i, fam in enumerate(fams):
            if i % desc["n"] != desc["shard"] % desc["n"]:
                continue
            f = W.FAMILIES[fam]
            lang = rnd.choice(W.LANGS)
            series = []
            ok = True
            for mult in (1, 2, 4, 8):
                raw = f(desc["base"] * mult)
                R.breadcrumb(json.dumps({"raw": raw, "db": "none", "lang": lang}))
                v, key, what, detail, tree, ticks = parse_once(raw, None, lang)
                R.case(h64("ladder", fam, mult), True)
                if v != "ok":
                    if v == "recursion" and W.depth_estimate(raw) > 40:
                        R.skip()
                    else:
                        report_violation(R, key, "%s (family %s, n=%d)" % (what, fam, desc["base"] * mult), detail,
                                         raw, "none", lang)
                    ok = False
                    break
                series.append((len(raw), ticks))
            if not ok:
                continue
            R.count("ladders_completed")
            ratios = [series[j + 1][1] / max(1, series[j][1]) for j in range(3)]
            R.seen("ladder_ratios", "%s:%s" % (fam, ",".join("%.1f" % r for r in ratios)))
            if (ratios[0] >= 32 and ratios[1] >= 32) or (ratios[1] >= 32 and ratios[2] >= 32):
                R.violation("growth:super-polynomial:" + fam,
                            "steps grow by %s on consecutive doublings (sizes/steps %r)" % (ratios, series),
                            {"family": fam, "base": desc["base"], "lang": lang})
        return
    if desc["kind"] == "attrs":
        for i, raw in enumerate(attr_documents()):
            if i % desc["n"] != desc["shard"]:
                continue
            lang = "en"
            R.breadcrumb(json.dumps({"raw": raw, "db": "none", "lang": lang}))
            v, key, what, detail, tree, ticks = parse_once(raw, None, lang)
            R.count("attribute_documents")
            R.case(h64("attrs", raw), True)
            if v != "ok":
                report_violation(R, key, what, detail, raw, "none", lang)
        return
    san = bool(desc.get("san"))
    for _ in range(desc["count"]):
        lang = rnd.choice(W.LANGS)
        db, dbspec = make_db(rnd, lang)
        raw = gen_input(rnd, desc["maxtok"])
        if W.depth_estimate(raw) > 40:
            R.skip()
            continue
        R.breadcrumb(json.dumps({"raw": raw, "db": dbspec, "lang": lang}))
        v, key, what, detail, tree, ticks = parse_once(raw, db, lang)
        kinds = len(set(re.findall(r"\[\[|\{\||\{\{|''+|<[a-z]+|==+|\n[*#:;]|&#?\w+;|https?:", raw)))
        if v == "recursion":
            # nesting estimate says <= 40, so this is inside the quantifier
            report_violation(R, key, "RecursionError at estimated nesting %d" % W.depth_estimate(raw), detail, raw,
                             dbspec, lang)
            R.case(h64(raw, str(dbspec), lang), kinds >= 3)
            continue
        if v == "violated":
            report_violation(R, key, what, detail, raw, dbspec, lang)
            R.case(h64(raw, str(dbspec), lang), kinds >= 3)
            continue
        R.count("parses_completed")
        if dbspec not in ("none", "dummy"):
            R.count("with_templates")
        err = shape_error(tree)
        R.count("shape_checks")
        if err:
            R.violation("shape:" + err.split(" ")[0], err, {"raw": raw, "db": dbspec, "lang": lang})
        cls = {type(n).__name__ for n in tree.allchildren()} - {"Article", "Text"}
        classes |= cls
        R.case(h64(raw, str(dbspec), lang), kinds >= 3 and len(cls) >= 2,
               sample={"raw": raw[:300], "lang": lang, "db": "templates" if isinstance(dbspec, dict) else dbspec,
                       "steps": ticks, "node_classes": sorted(cls)[:8]})
        R.seen("steps_per_char_bucket", str(int(ticks / max(1, len(raw)) // 100 * 100)))
    for c in classes:
        R.seen("node_classes", c)
    if san:
        R.count("parses_under_asan_ubsan", R.evaluations)


def replay(case):
    import logging
    import sys
    logging.disable(logging.CRITICAL)
    if "family" in case:
        out = []
        series = []
        for mult in (1, 2, 4, 8):
            raw = W.FAMILIES[case["family"]](case["base"] * mult)
            v, key, what, detail, tree, ticks = parse_once(raw, None, case["lang"])
            series.append((len(raw), ticks, v))
        print("ladder:", series)
        r = [series[j + 1][1] / max(1, series[j][1]) for j in range(3)]
        if (r[0] >= 32 and r[1] >= 32) or (r[1] >= 32 and r[2] >= 32):
            out.append(("growth:super-polynomial:" + case["family"], str(r), None))
        return out
    if case.get("crumb") or case.get("last_case"):
        # witness recorded by the supervisor: re-run under a hard CPU limit; being killed = reproduced
        import resource
        case = json.loads(case.get("crumb") or case.get("last_case"))
        print("re-running under RLIMIT_CPU=%d s; a kill by SIGXCPU/SIGKILL reproduces the blow-up" % CASE_CPU)
        sys.stdout.flush()
        resource.setrlimit(resource.RLIMIT_CPU, (CASE_CPU, CASE_CPU + 5))
    raw = case.get("raw")
    v, key, what, detail, tree, ticks = parse_once(raw, db_from(case["db"], case["lang"]), case["lang"])
    if v in ("violated", "recursion"):
        return [(key, what, detail)]
    err = shape_error(tree)
    return [("shape:" + err.split(" ")[0], err, None)] if err else []
