"""C04 Template expansion computes what the template language says.

Differential monitor: the real Expander vs an independent reference interpreter over the *generated
AST* (never parsing wikitext), and the real #expr vs a reference evaluator over generated expression
trees printed according to the documented MediaWiki precedence table.
"""
import json
import math
import random

from ..child import exc_detail, exc_key, h64

ID = "C04"
LEVEL = "exploration"
RULE = ("(a) acyclic universes of 1-4 templates, page depth <=4: text, positional/named arguments in any order with "
        "whitespace variants, parameters with/without default, nested calls, #if, #ifeq (word and numeric leaves), "
        "#switch with fall-through, #default and trailing default; (b) #expr trees to depth 5 over integer/decimal "
        "literals, unary minus, + - * / div mod ^, comparisons, and/or/not, abs floor ceil trunc, printed with "
        "minimal and with redundant parentheses; non-trivial = program uses >=2 construct kinds / expression has "
        ">=2 operators; distinct = distinct page text + template set / expression text")
ASSUMPTIONS = [
    "MediaWiki semantics as documented: positional arguments untrimmed, named arguments and #if/#ifeq/#switch "
    "subjects, keys and results trimmed, unbound parameter without default stays literal, later binding of the same "
    "name wins, numeric-aware equality for #ifeq/#switch",
    "#expr precedence (high to low): unary + -, functions and not, ^, * / div mod, + -, comparisons, and, or; all "
    "binary operators left-associative; results compared numerically (rel. tol. 1e-9); mod only with non-negative "
    "operands; cases where the reference itself is undefined (overflow, domain errors) are skipped",
]
REQUIRED = {"programs_compared": 500, "expressions_compared": 500, "uses_switch": 50, "uses_ifeq": 50,
            "uses_named": 50, "uses_default": 50, "uses_unbound": 20, "expr_with_function_and_pow": 10}
LEVEL_TEXT = ("Exploration: 1e4 (quick) to 1e6 (thorough) generated template programs and #expr trees; each expansion "
              "of the real code is compared with a reference interpreter that evaluates the generated AST under the "
              "documented semantics.")
LEVEL_NOTE = "Only the grammar named in the quantifier; trusts the 150-line reference interpreter."
TECHNIQUE = "differential runtime monitor: real expander / #expr vs reference interpreter over generated ASTs"

NUMS = ["0", "1", "2", "7", "01", "1.0", "2.50", "10", "-3", "+1", "007"]
WS = ["", "", " ", "  ", "\n", " \n "]


# ---- template programs -----------------------------------------------------------------------
class PGen:
    def __init__(self, rnd, ntemplates):
        self.rnd = rnd
        self.k = 0
        self.nt = ntemplates
        self.kinds = set()

    def leaf(self):
        if self.rnd.random() < 0.25:
            return ("t", self.rnd.choice(NUMS))
        self.k += 1
        return ("t", "v%d" % self.k)

    def text(self):
        # words separated by single spaces; starts and ends with a word character
        return ("t", " ".join(self.leaf()[1] for _ in range(self.rnd.randint(1, 3))))

    def parts(self, tmpl, depth, inside_template, lo=1, hi=3):
        """sequence of parts, separated by single spaces (kept in the AST as text)"""
        rnd = self.rnd
        out = []
        for i in range(rnd.randint(lo, hi)):
            if out:
                out.append(("t", " "))
            x = rnd.random()
            if depth >= 4 or x < 0.35:
                out.append(self.text())
            elif x < 0.55 and inside_template:
                out.append(self.param(tmpl, depth))
            elif x < 0.70 and tmpl < self.nt:
                out.append(self.call(tmpl, depth, inside_template))
            elif x < 0.80:
                self.kinds.add("if")
                out.append(("if", self.parts(tmpl, depth + 1, inside_template, 0, 1) if rnd.random() < 0.7 else [],
                            self.parts(tmpl, depth + 1, inside_template, 1, 2), self.branch_ws(),
                            self.parts(tmpl, depth + 1, inside_template, 1, 2) if rnd.random() < 0.7 else None))
            elif x < 0.90:
                self.kinds.add("ifeq")
                a = self.cmp_operand(tmpl, depth, inside_template)
                b = self.cmp_operand(tmpl, depth, inside_template, like=a)
                out.append(("ifeq", a, b, self.parts(tmpl, depth + 1, inside_template, 1, 2), self.branch_ws(),
                            self.parts(tmpl, depth + 1, inside_template, 1, 2) if rnd.random() < 0.8 else None))
            else:
                self.kinds.add("switch")
                out.append(self.switch(tmpl, depth, inside_template))
        return out

    def branch_ws(self):
        return (self.rnd.choice(WS), self.rnd.choice(WS))

    def cmp_operand(self, tmpl, depth, inside, like=None):
        rnd = self.rnd
        if like is not None and rnd.random() < 0.5:
            # something equal by value (same word, or another spelling of the same number)
            if len(like) == 1 and like[0][0] == "t":
                v = like[0][1]
                try:
                    f = float(v)
                    alts = [n for n in NUMS if float(n) == f]
                    return [("t", rnd.choice(alts))]
                except ValueError:
                    return [("t", v)]
        x = rnd.random()
        if x < 0.4:
            return [("t", rnd.choice(NUMS))]
        if x < 0.7 or not inside:
            return [self.leaf()]
        if x < 0.85 and depth < 4:
            # a value computed from a parameter one level down ({{#if:{{{2|}}}|7|8}})
            self.kinds.add("if")
            return [("if", [self.param(tmpl, depth + 1)], [("t", rnd.choice(NUMS))], self.branch_ws(), [self.leaf()])]
        return [self.param(tmpl, depth)]

    def param(self, tmpl, depth):
        rnd = self.rnd
        name = rnd.choice(("1", "2", "3", "x", "y"))
        if rnd.random() < 0.5:
            self.kinds.add("default")
            return ("p", name, self.parts(tmpl, depth + 1, True, 1, 1))
        return ("p", name, None)

    def call(self, tmpl, depth, inside):
        rnd = self.rnd
        target = rnd.randint(tmpl + 1, self.nt)
        args = []
        free = ["x", "y"]
        for _ in range(rnd.randint(0, 4)):
            val = self.parts(tmpl, depth + 1, inside, 1, 2)
            if rnd.random() < 0.4 and free:
                self.kinds.add("named")
                # each name at most once and never a numeric name: which of two bindings of the same
                # parameter wins is not part of the statement
                name = free.pop(rnd.randrange(len(free)))
                args.append(("n", name, (rnd.choice(WS), rnd.choice(WS), rnd.choice(WS), rnd.choice(WS)), val))
            else:
                args.append(("a", (rnd.choice(("", "", " ", "  ")), rnd.choice(("", "", " "))), val))
        npos = sum(1 for a in args if a[0] == "a")
        if npos < 3 and rnd.random() < 0.25:
            # a positional parameter bound by its number, beyond the positional arguments given (never twice)
            self.kinds.add("named")
            name = str(rnd.randint(npos + 1, 3))
            args.insert(rnd.randint(0, len(args)), ("n", name, (rnd.choice(WS), rnd.choice(WS), rnd.choice(WS), rnd.choice(WS)),
                                                    self.parts(tmpl, depth + 1, inside, 1, 1)))
        self.kinds.add("call")
        return ("c", "t%d" % target, args)

    def switch(self, tmpl, depth, inside):
        rnd = self.rnd
        subject = self.cmp_operand(tmpl, depth, inside)
        cases = []
        for _ in range(rnd.randint(1, 4)):
            keys = [self.cmp_operand(tmpl, depth, inside, like=subject if rnd.random() < 0.3 else None)
                    for _ in range(rnd.randint(1, 3))]
            cases.append((keys, self.parts(tmpl, depth + 1, inside, 1, 1), self.branch_ws()))
        default = None
        k = rnd.random()
        # (never both a #default and a trailing keyless value: their priority is not part of the statement)
        if k < 0.35:
            default = ("named", self.parts(tmpl, depth + 1, inside, 1, 1), rnd.randint(0, len(cases)))
        elif k < 0.6:
            default = ("last", self.parts(tmpl, depth + 1, inside, 1, 1), None)
        return ("sw", subject, cases, default)


def ser(parts):
    out = []
    for p in parts:
        t = p[0]
        if t == "t":
            out.append(p[1])
        elif t == "p":
            out.append("{{{%s}}}" % p[1] if p[2] is None else "{{{%s|%s}}}" % (p[1], ser(p[2])))
        elif t == "c":
            s = "{{" + p[1]
            for a in p[2]:
                if a[0] == "a":
                    s += "|" + a[1][0] + ser(a[2]) + a[1][1]
                else:
                    w = a[2]
                    s += "|" + w[0] + a[1] + w[1] + "=" + w[2] + ser(a[3]) + w[3]
            out.append(s + "}}")
        elif t == "if":
            _, cond, then, ws, els = p
            s = "{{#if:" + ws[0] + ser(cond) + ws[1] + "|" + ws[0] + ser(then) + ws[1]
            if els is not None:
                s += "|" + ws[1] + ser(els) + ws[0]
            out.append(s + "}}")
        elif t == "ifeq":
            _, a, b, then, ws, els = p
            s = "{{#ifeq:" + ws[0] + ser(a) + ws[1] + "|" + ws[1] + ser(b) + ws[0] + "|" + ws[0] + ser(then) + ws[1]
            if els is not None:
                s += "|" + ser(els) + ws[1]
            out.append(s + "}}")
        elif t == "sw":
            _, subject, cases, default = p
            items = []
            for keys, val, ws in cases:
                for k in keys[:-1]:
                    items.append(ws[0] + ser(k) + ws[1])
                items.append(ws[0] + ser(keys[-1]) + ws[1] + "=" + ws[1] + ser(val) + ws[0])
            if default is not None and default[0] == "named":
                items.insert(default[2] + sum(len(c[0]) - 1 for c in cases[:default[2]]),
                             " #default = " + ser(default[1]))
            elif default is not None:
                items.append(" " + ser(default[1]) + " ")
            out.append("{{#switch: " + ser(subject) + " |" + "|".join(items) + "}}")
    return "".join(out)


def numeq(a, b):
    if a == b:
        return True
    try:
        return float(a) == float(b)
    except ValueError:
        return False


def ev(parts, env, templates):
    """reference interpreter: evaluated string of `parts` in argument environment env"""
    out = []
    for p in parts:
        t = p[0]
        if t == "t":
            out.append(p[1])
        elif t == "p":
            if env is not None and p[1] in env:
                out.append(env[p[1]])
            elif p[2] is not None:
                out.append(ev(p[2], env, templates))
            else:
                out.append("{{{%s}}}" % p[1])
        elif t == "c":
            new = {}
            pos = 0
            for a in p[2]:
                if a[0] == "a":
                    pos += 1
                    new[str(pos)] = a[1][0] + ev(a[2], env, templates) + a[1][1]      # untrimmed
                else:
                    new[a[1]] = ev(a[3], env, templates).strip()                      # trimmed
            out.append(ev(templates[p[1]], new, templates))
        elif t == "if":
            _, cond, then, ws, els = p
            if ev(cond, env, templates).strip():
                out.append(ev(then, env, templates).strip())
            elif els is not None:
                out.append(ev(els, env, templates).strip())
        elif t == "ifeq":
            _, a, b, then, ws, els = p
            if numeq(ev(a, env, templates).strip(), ev(b, env, templates).strip()):
                out.append(ev(then, env, templates).strip())
            elif els is not None:
                out.append(ev(els, env, templates).strip())
        elif t == "sw":
            _, subject, cases, default = p
            subj = ev(subject, env, templates).strip()
            res = None
            for keys, val, ws in cases:
                if any(numeq(subj, ev(k, env, templates).strip()) for k in keys):
                    res = ev(val, env, templates).strip()
                    break
            if res is None and default is not None:
                res = ev(default[1], env, templates).strip()
            out.append(res or "")
    return "".join(out)


def gen_program(rnd):
    nt = rnd.randint(1, 4)
    g = PGen(rnd, nt)
    templates = {}
    for i in range(nt, 0, -1):
        templates["t%d" % i] = g.parts(i, 1, True, 1, 3)
    page = g.parts(0, 0, False, 1, 3)
    # the page must call something
    if not any(p[0] == "c" for p in page):
        page.append(("t", " "))
        page.append(g.call(0, 0, False))
    return page, templates, g.kinds


def uses_unbound(page, templates):
    s = ser(page) + "".join(ser(v) for v in templates.values())
    return "{{{" in s


# ---- expressions -----------------------------------------------------------------------------
PREC = {"or": 2, "and": 3, "=": 4, "!=": 4, "<": 4, ">": 4, "<=": 4, ">=": 4, "<>": 4, "+": 6, "-": 6,
        "*": 7, "/": 7, "div": 7, "mod": 7, "^": 8, "fn": 9, "neg": 10}
FUNCS = ["not", "abs", "floor", "ceil", "trunc"]
BIN = ["+", "-", "*", "/", "div", "mod", "^", "=", "!=", "<", ">", "<=", ">=", "<>", "and", "or"]
LITS = ["0", "1", "2", "3", "5", "7", "10", "2.5", "0.5", "1.25", "12", "100", "3.0"]


def gen_expr(rnd, depth):
    if depth <= 0 or rnd.random() < 0.25:
        return ("lit", rnd.choice(LITS))
    x = rnd.random()
    if x < 0.12:
        return ("neg", gen_expr(rnd, depth - 1))
    if x < 0.32:
        return ("fn", rnd.choice(FUNCS), gen_expr(rnd, depth - 1))
    return ("bin", rnd.choice(BIN), gen_expr(rnd, depth - 1), gen_expr(rnd, depth - 1))


class Undefined(Exception):
    pass


def ev_expr(e):
    t = e[0]
    if t == "lit":
        return float(e[1]) if "." in e[1] else int(e[1])
    if t == "neg":
        return -ev_expr(e[1])
    if t == "fn":
        v = ev_expr(e[2])
        f = e[1]
        if f == "not":
            return int(not v)
        if f == "abs":
            return abs(v)
        if abs(v) > 1e15:
            raise Undefined()
        if f == "floor":
            return math.floor(v)
        if f == "ceil":
            return math.ceil(v)
        return int(v)
    _, op, a, b = e
    x, y = ev_expr(a), ev_expr(b)
    if op == "+":
        return x + y
    if op == "-":
        return x - y
    if op == "*":
        return x * y
    if op in ("/", "div"):
        if y == 0:
            raise ZeroDivisionError()
        return x / y
    if op == "mod":
        if x < 0 or y < 0 or abs(x) > 1e15 or abs(y) > 1e15:
            raise Undefined()          # outside the quantifier (non-negative operands)
        if int(y) == 0:
            raise ZeroDivisionError()
        return int(x) % int(y)
    if op == "^":
        try:
            r = math.pow(x, y)
        except (OverflowError, ValueError, ZeroDivisionError):
            raise Undefined()
        if abs(r) > 1e100:
            raise Undefined()
        return r
    if op == "=":
        return int(x == y)
    if op in ("!=", "<>"):
        return int(x != y)
    if op == "<":
        return int(x < y)
    if op == ">":
        return int(x > y)
    if op == "<=":
        return int(x <= y)
    if op == ">=":
        return int(x >= y)
    if op == "and":
        return int(bool(x) and bool(y))
    if op == "or":
        return int(bool(x) or bool(y))
    raise ValueError(op)


def prec_of(e):
    t = e[0]
    if t == "lit":
        return 99
    if t == "neg":
        return PREC["neg"]
    if t == "fn":
        return PREC["fn"]
    return PREC[e[1]]


def pr(e, rnd, redundant):
    """print with minimal parentheses under the documented table (left association); `redundant` adds more"""
    t = e[0]
    if t == "lit":
        s = e[1]
    elif t == "neg":
        inner = pr(e[1], rnd, redundant)
        if prec_of(e[1]) < PREC["neg"] or e[1][0] == "neg":
            inner = "(" + inner + ")"
        s = "-" + inner
    elif t == "fn":
        inner = pr(e[2], rnd, redundant)
        # a function applies to the following operand; anything binding weaker needs parentheses
        if prec_of(e[2]) < PREC["fn"]:
            inner = "(" + inner + ")"
        s = e[1] + " " + inner
    else:
        _, op, a, b = e
        p = PREC[op]
        left = pr(a, rnd, redundant)
        right = pr(b, rnd, redundant)
        if prec_of(a) < p:
            left = "(" + left + ")"
        if prec_of(b) <= p:
            right = "(" + right + ")"
        sp = rnd.choice((" ", " ", "")) if op in "+-*/^=<>!=<=>=<>" and not op.isalpha() else " "
        s = left + sp + op + sp + right
    if redundant and rnd.random() < 0.3:
        s = "(" + s + ")"
    return s


def count_ops(e):
    if e[0] == "lit":
        return 0
    return 1 + sum(count_ops(x) for x in e[1:] if isinstance(x, tuple))


def has_fn_pow(e):
    """a function whose operand is a ^-expression or a ^ whose left operand is a function"""
    if e[0] == "lit":
        return False
    if e[0] == "bin" and e[1] == "^" and e[2][0] == "fn":
        return True
    return any(has_fn_pow(x) for x in e[1:] if isinstance(x, tuple))


# ---- shards ----------------------------------------------------------------------------------
def plan(tier, seed):
    n = 16
    per = 700 if tier == "quick" else 40000
    return [{"kind": "programs", "shard": i, "count": per, "seed": seed} for i in range(n)] + \
           [{"kind": "expr", "shard": i, "count": per * 2, "seed": seed} for i in range(n)]


def expand(text, pages):
    import mwlib.parser.expander  # noqa
    from mwlib.parser.templ.evaluate import Expander
    from ..gen.db import SynthDB
    from . import C03
    C03.install_watermark()
    C03._watermark["max"] = 0
    e = Expander(text, pagename="Page", wikidb=SynthDB(pages, "en"))
    _last_limit[0] = e.recursion_limit
    return e.expandTemplates()


_last_limit = [100]


def recursion_limit_hit():
    from . import C03
    return C03._watermark["max"] > _last_limit[0]


def check_program(R, page, templates, kinds):
    text = ser(page)
    pages = {k: ser(v) for k, v in templates.items()}
    case = {"text": text, "pages": pages}
    expected = ev(page, None, templates)
    try:
        got = expand(text, pages)
    except Exception as e:
        R.violation("raises:" + exc_key(e), "expansion raised %s" % type(e).__name__, case, exc_detail(e))
        return
    R.count("programs_compared")
    for k in kinds:
        R.count("uses_" + k)
    if "{{{" in expected:
        R.count("uses_unbound")
    R.case(h64(text, sorted(pages.items())), len(kinds) >= 2, sample={"text": text, "pages": pages, "expanded": got})
    if got != expected:
        kind = classify(page, templates, got, expected)
        if recursion_limit_hit():
            # the expander's nesting counter (one per nested flatten call, several per syntactic level) ran into its
            # limit although the program is acyclic: the enclosing call is dropped
            kind = "recursion-limit-reached-by-acyclic-program"
        R.violation("program:" + kind, "expanded %r, template semantics give %r" % (got, expected), case,
                    json.dumps({"got": got, "expected": expected}))


def classify(page, templates, got, expected):
    """coarse mechanism: which construct kinds are present (ordered by specificity)"""
    s = ser(page) + "".join(ser(v) for v in templates.values())
    if got.strip() == expected.strip() or " ".join(got.split()) == " ".join(expected.split()):
        return "whitespace"
    for k, marker in (("switch", "#switch"), ("ifeq", "#ifeq"), ("if", "#if:"), ("named-arg", "="), ("param", "{{{")):
        if marker in s:
            return "wrong-value:" + k
    return "wrong-value:call"


def check_expr(R, e, rnd):
    text = pr(e, rnd, rnd.random() < 0.4)
    src = "{{#expr: %s }}" % text
    case = {"expr": text}
    try:
        exp = ev_expr(e)
        exp_err = False
    except ZeroDivisionError:
        exp, exp_err = None, True
    except (Undefined, OverflowError):
        R.skip()
        return
    try:
        got = expand(src, {})
    except Exception as ex:
        R.violation("expr:raises:" + exc_key(ex), "#expr raised %s" % type(ex).__name__, case, exc_detail(ex))
        return
    R.count("expressions_compared")
    if has_fn_pow(e):
        R.count("expr_with_function_and_pow")
    R.case(h64(text), count_ops(e) >= 2, sample={"expr": text, "result": got})
    is_err = 'class="error"' in got
    if exp_err:
        if not is_err:
            R.violation("expr:division-by-zero-not-reported", "%s gave %r" % (text, got), case)
        return
    if is_err:
        R.violation("expr:error-for-defined-expression:" + mech(e, None), "%s = %r by the documented rules, got %r" % (text, exp, got), case)
        return
    try:
        g = float(got)
    except ValueError:
        R.violation("expr:non-numeric-result", "%s gave %r" % (text, got), case)
        return
    if not math.isclose(g, float(exp), rel_tol=1e-9, abs_tol=1e-12):
        R.violation("expr:wrong-value:" + mech(e, g), "%s = %r by the documented rules, got %r" % (text, exp, got), case)


def mech(e, got):
    """which operator classes occur (mechanism discriminator)"""
    ops = set()

    def walk(x):
        if x[0] == "bin":
            ops.add(x[1])
        elif x[0] == "fn":
            ops.add("fn")
        elif x[0] == "neg":
            ops.add("neg")
        for y in x[1:]:
            if isinstance(y, tuple):
                walk(y)

    walk(e)
    if "fn" in ops and "^" in ops:
        return "function-vs-pow"
    if "^" in ops:
        return "pow"
    if "neg" in ops:
        return "unary-minus"
    return "other"


def run_shard(desc, R):
    import logging
    logging.disable(logging.CRITICAL)
    rnd = random.Random("C04:%s:%s:%s" % (desc["kind"], desc["seed"], desc["shard"]))
    if desc["kind"] == "programs":
        for _ in range(desc["count"]):
            page, templates, kinds = gen_program(rnd)
            check_program(R, page, templates, kinds)
        # text without template syntax is returned unchanged
        for _ in range(50):
            txt = " ".join("v%d" % rnd.randint(1, 99) for _ in range(rnd.randint(1, 20)))
            got = expand(txt, {})
            R.count("plain_text_checks")
            if got != txt:
                R.violation("plain-text-changed", "text without template syntax came back as %r" % got, {"text": txt, "pages": {}})
    else:
        for _ in range(desc["count"]):
            e = gen_expr(rnd, rnd.randint(1, 5))
            check_expr(R, e, rnd)


def replay(case):
    import logging
    logging.disable(logging.CRITICAL)
    if "expr" in case:
        got = expand("{{#expr: %s }}" % case["expr"], {})
        print("%s -> %r" % (case["expr"], got))
        return [("expr:replay", "see output; the witness file holds the documented value", None)]
    got = expand(case["text"], case["pages"])
    print("expanded: %r" % got)
    return [("program:replay", "see output; the witness file holds the expected value", None)]
