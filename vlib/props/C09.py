"""C09 Opaque tags stay opaque: nowiki/pre/math/source/syntaxhighlight/timeline bodies are never interpreted.

Tree-vs-written-body monitor: document = context[ S1 <tag>body</tag> S2 ]; what the tree holds between
the two sentinels must be the body verbatim (nowiki/pre: modulo character-entity decoding) and nothing
else; plus the Uniquifier round trip on the surrounding text.
"""
import html
import json
import random
import re

from ..child import exc_detail, exc_key, h64
from ..gen import wikitext as W

ID = "C09"
LEVEL = "exploration"
TAGS = ["nowiki", "pre", "math", "source", "syntaxhighlight", "timeline"]
S1, S2 = "SENTINELALPHA", "SENTINELOMEGA"
CONTEXTS = {
    "top": "%s",
    "list": "* %s\n* other",
    "cell": "{|\n| %s\n| other\n|}",
    "bold": "'''%s'''",
    "definition": "; term\n: %s",
    "template-arg": "{{pass|%s}}",
    "named-template-arg": "{{passn|v=%s}}",
    "after-heading": "== head ==\n%s\n",
    "html-div": "<div>%s</div>",
}
RULE = ("(tag, body, context) triples: tag in %r; bodies from the markup alphabet (template calls, parameters, links, "
        "HTML tags, comments, noinclude/includeonly, other opaque tags' openers and closers, quotes, pipes, equals, table "
        "markup at line starts, entities) not containing their own closer or 0x7f; contexts %r; plus the Uniquifier "
        "round trip replace_uniq(replace_tags(t)) on texts with several regions; non-trivial = body contains markup "
        "that would be interpreted outside the tag; distinct = distinct documents" % (TAGS, sorted(CONTEXTS)))
ASSUMPTIONS = [
    "for nowiki/pre both sides are compared after decoding character entities to a fixed point, so it does not "
    "matter which entity forms mwlib decodes",
    "block-level opaque tags may split the inline context they sit in; only the order S1 < body < S2 and the absence "
    "of interpreted nodes between the sentinels are required",
]
REQUIRED = {"occurrence_checks": 1500, "pairs_checked": 300, "template_borne_checked": 300, "triples_checked": 2000, "roundtrips_checked": 500, "ctx_template-arg": 50, "ctx_cell": 50, "ctx_list": 50,
            "tag_nowiki": 100, "tag_pre": 100, "tag_math": 100, "tag_source": 100, "tag_syntaxhighlight": 100,
            "tag_timeline": 100}
LEVEL_TEXT = ("Exploration: 3e4 (quick) / 2e6 (thorough) generated (tag, body, context) documents parsed by the real "
              "parser (with a template database so that template-argument contexts expand); the observer compares what "
              "lies between two sentinel words with the written body; an adjacency/multiplicity shard glues a region to "
              "each of 37 lexemes, passes it to templates using their argument 2-3 times and nests it in <ref>, and "
              "checks that each body reaches the tree exactly as often as written and that no protection marker leaks.")
LEVEL_NOTE = "Bodies are generated, not exhaustive; the contexts are the nine listed plus the adjacency shapes."
TECHNIQUE = "tree-vs-written-body runtime monitor with sentinels over generated (tag, body, context) triples; occurrence-count and marker-leak monitor over adjacency shapes; round-trip law on the uniquifier"

BODY_ATOMS = ["{{t}}", "{{{1}}}", "{{{1|d}}}", "[[Link]]", "[[A|b]]", "<b>q</b>", "<i>", "</i>", "<!-- c -->", "<!--", "-->",
              "<noinclude>NI</noinclude>", "<includeonly>IO</includeonly>", "<onlyinclude>OI</onlyinclude>", "</noinclude>",
              "<includeonly>", "''it''", "'''", "|", "||", "=", "a=b", "\n* li", "\n{|\n| c\n|}", "\n== h ==", "\n: dd", "\n ", "\n\n",
              "&amp;", "&lt;b&gt;", "&#65;", "&amp;lt;", "&nbsp;", "&foo;", "<br/>", "<ref>r</ref>", "http://e.org/x", "[http://e.org l]",
              "~~~~", "__TOC__", "{{", "}}", "{{{", "}}}", "[[", "]]", "<div class=\"noprint\">", "</div>", "word", "x y", " ", "  ",
              "<math>m</math>", "</math>", "<nowiki>", "</nowiki>", "<nowiki>n</nowiki>", "<pre>", "</pre>", "<source>", "</source>",
              "<syntaxhighlight>", "</syntaxhighlight>", "<timeline>", "</timeline>", "<gallery>", "</gallery>", "{{#if:1|y|n}}",
              "{{lc:ABC}}", "<span style=\"display:none\">", "é", "日本", "\t", "\\", "$", "<", ">", "&",
              "&lt;nowiki&gt;", "&lt;/nowiki&gt;", "&#60;nowiki&#62;''e''&#60;/nowiki&#62;", "&lt;nowiki&gt;''x''&lt;/nowiki&gt;",
              "&lt;pre&gt;", "&lt;/pre&gt;", "&lt;!-- c --&gt;", "&amp;lt;nowiki&amp;gt;",
              # ampersand words that are not entities (no semicolon)
              "&#x41 ;", "&# 65;", "&#6_5;", "&#+65;", "&#x 41;", "&#65 ;",
              "&copy", "title=X&copy=1&reg=2", "a &lt b", "&amp&amp", "&para", "&notit;", "&copy;", "&#65", "&#x41 "]


def gen_body(rnd, tag):
    for _ in range(20):
        n = rnd.randint(1, 7)
        body = "".join(rnd.choice(BODY_ATOMS) + (" " if rnd.random() < 0.3 else "") for _ in range(n))
        low = body.lower()
        if re.search(r"</%s\s*>" % tag, low) or "\x7f" in body:
            continue
        if tag == "syntaxhighlight" and False:
            continue
        return body
    return "plain words"


_ENT = re.compile(r"&(#[0-9]{1,8}|#[xX][0-9a-fA-F]{1,7}|[A-Za-z][A-Za-z0-9]{1,31});")


def _decode_entity(m):
    import html.entities
    e = m.group(1)
    if e[0] == "#":
        n = int(e[2:], 16) if e[1] in "xX" else int(e[1:])
        if n in (0x7f, 0) or n > 0x10ffff or 0xd800 <= n <= 0xdfff:
            return m.group(0)
        return chr(n)
    return html.entities.html5.get(e + ";", m.group(0))


def canon(s):
    """decode character entities - only complete ones, ending in ';' - until nothing changes"""
    for _ in range(6):
        t = _ENT.sub(_decode_entity, s)
        if t == s:
            break
        s = t
    return s.replace("\xa0", " ")


def plan(tier, seed):
    n = 16
    per = 1800 if tier == "quick" else 120000
    return [{"kind": "triples", "shard": i, "count": per, "seed": seed} for i in range(n)] + \
           [{"kind": "pairs", "shard": i, "count": per // 3, "seed": seed} for i in range(n)] + \
           [{"kind": "roundtrip", "shard": i, "count": per // 3, "seed": seed} for i in range(n)] + \
           [{"kind": "adjacency", "shard": i, "n": 4, "seed": seed, "random": 300 if tier == "quick" else 30000} for i in range(4)]


def leaves(root):
    """document-order list of (kind, text, node): Text leaves and opaque holders"""
    out = []

    def rec(n, inside):
        name = type(n).__name__
        if name == "Text":
            out.append(("text" if inside is None else inside, n.caption or "", n))
            return
        if name == "Math":
            out.append(("math", n.caption or "", n))
            return
        if name == "Timeline":
            out.append(("timeline", n.caption or "", n))
            return
        if name == "PreFormatted" and inside is None:
            out.append(("open:pre", "", n))
            for c in n.children:
                rec(c, "pre-text" if type(c).__name__ == "Text" else "pre-other")
            out.append(("close:pre", "", n))
            return
        if name == "TagNode" and getattr(n, "tagname", None) == "source" and inside is None:
            out.append(("open:source", "", n))
            for c in n.children:
                rec(c, "source-text" if type(c).__name__ == "Text" else "source-other")
            out.append(("close:source", "", n))
            return
        if inside is not None:
            out.append((inside.split("-")[0] + "-other", name, n))
            for c in n.children:
                rec(c, inside.split("-")[0] + "-other")
            return
        if name not in ("Article", "Paragraph", "Node", "ItemList", "Item", "Table", "Row", "Cell", "Section", "Strong",
                        "DefinitionList", "DefinitionTerm", "DefinitionDescription", "Div", "Emphasized", "Indented"):
            out.append(("node", name, n))
        for c in n.children:
            rec(c, None)

    rec(root, None)
    return out


def judge(tag, body, lv):
    """None or (key, what) from the leaf list"""
    # positions of the sentinels
    i1 = [i for i, (k, t, _) in enumerate(lv) if k == "text" and S1 in t]
    i2 = [i for i, (k, t, _) in enumerate(lv) if k == "text" and S2 in t]
    alltext = "".join(t for k, t, _ in lv if k == "text")
    if alltext.count(S1) != 1 or alltext.count(S2) != 1 or not i1 or not i2:
        return ("surrounding-text-damaged", "sentinel words occur %d/%d times in the tree text" % (alltext.count(S1), alltext.count(S2)))
    a, b = i1[0], i2[-1]
    if a > b:
        return ("surrounding-text-reordered", "the text after the tag precedes the text before it")
    if a == b:
        between = [("text", lv[a][1].split(S1, 1)[1].rsplit(S2, 1)[0], None)]
    else:
        between = [("text", lv[a][1].split(S1, 1)[1], None)] + lv[a + 1:b] + [("text", lv[b][1].rsplit(S2, 1)[0], None)]
    kinds = [k for k, _, _ in between]
    if tag == "nowiki":
        bad = [(k, t) for k, t, _ in between if k != "text"]
        if bad:
            return ("interpreted:nowiki:" + bad[0][0].split(":")[0] + ":" + str(bad[0][1])[:20].split(" ")[0],
                    "something inside <nowiki> was interpreted: %r" % (bad[:3],))
        got = "".join(t for k, t, _ in between)
        if canon(got).strip() != canon(body).strip():
            return ("body-changed:nowiki", "nowiki body %r reached the tree as %r" % (body, got))
        return None
    holder = {"pre": "pre", "math": "math", "timeline": "timeline", "source": "source", "syntaxhighlight": "source"}[tag]
    if holder in ("math", "timeline"):
        hs = [t for k, t, _ in between if k == holder]
        others = [(k, t) for k, t, _ in between if k != holder and not (k == "text" and not t.strip())]
        if len(hs) != 1:
            return ("holder-missing:" + tag, "expected one %s node between the sentinels, found %d (%r)" % (holder, len(hs), kinds))
        if others:
            return ("interpreted:%s:%s" % (tag, others[0][0]), "besides the %s node the tree holds %r between the sentinels" % (holder, others[:3]))
        if hs[0] != body:
            return ("body-changed:" + tag, "%s body %r reached the tree as %r" % (tag, body, hs[0]))
        return None
    # pre / source: an open..close group holding only text
    if kinds.count("open:" + holder) != 1:
        return ("holder-missing:" + tag, "expected one %s block between the sentinels, found %r" % (holder, kinds))
    o, c = kinds.index("open:" + holder), kinds.index("close:" + holder)
    inner = between[o + 1:c]
    outer = [(k, t) for k, t, _ in between[:o] + between[c + 1:] if not (k == "text" and not t.strip())]
    if outer:
        return ("interpreted:%s:%s" % (tag, outer[0][0].split(":")[0]), "besides the %s block the tree holds %r between the sentinels" % (holder, outer[:3]))
    bad = [(k, t) for k, t, _ in inner if not k.endswith("-text")]
    if bad:
        return ("interpreted:%s:%s" % (tag, bad[0][1]), "inside the %s block the tree holds %r" % (holder, bad[:3]))
    got = "".join(t for k, t, _ in inner)
    if tag == "pre":
        if canon(got).strip("\n") != canon(body).strip("\n"):
            return ("body-changed:pre", "pre body %r reached the tree as %r" % (body, got))
    elif got != body:
        return ("body-changed:" + tag, "%s body %r reached the tree as %r" % (tag, body, got))
    return None


OPAQUE_TEMPLATES = {
    "opqn": ("nowiki", "''n'' [[x]] {{t}} <b>"),
    "opqs": ("source", "a ''b'' [[c]]\n* d"),
    "opqm": ("math", "\\frac{a}{b} ''x''"),
    "opqp": ("pre", "p ''q'' [[r]]"),
}
MID = "SENTINELMIDDLE"


def parse(text):
    import mwlib.parser.expander  # noqa
    from mwlib.parser.refine.uparser import parse_string
    from ..gen.db import SynthDB
    pages = {"pass": "{{{1}}}", "passn": "{{{v}}}", "t": "TEMPLATE-T-EXPANDED"}
    for k, (tb, _) in MULTI.items():
        pages[k] = tb
    for i, tg in enumerate(TAGS):
        # documentation first (dropped on transclusion), then the template's own opaque region
        pages["doc%d" % i] = "<noinclude><%s>''TD%dz''</%s> docs</noinclude><%s>''TK%dz''</%s> {{{1|}}}" % (tg, i, tg, tg, i, tg)
    for k, (tg, b) in OPAQUE_TEMPLATES.items():
        pages[k] = "<%s>%s</%s>" % (tg, b, tg)
    db = SynthDB(pages, "en")
    return parse_string("T", text, db, lang="en")


def mech(tag, body, key):
    """refine a key with the body feature that triggers it (mechanism discriminator)"""
    low = body.lower()
    feats = []
    for name, pat in (("noinclude", "<noinclude"), ("includeonly", "<includeonly"), ("onlyinclude", "<onlyinclude"),
                      ("close-noinclude", "</noinclude"), ("close-noinclude", "</includeonly"), ("close-noinclude", "</onlyinclude"), ("nested-nowiki", "<nowiki"), ("close-source", "</source"),
                      ("source-open", "<source"), ("comment", "<!--"), ("template", "{{"), ("link", "[["), ("entity", "&")):
        if pat in low:
            feats.append(name)
    return feats


def check_triple(R, tag, body, ctx):
    text = CONTEXTS[ctx] % ("%s <%s>%s</%s> %s" % (S1, tag, body, tag, S2))
    case = {"tag": tag, "body": body, "context": ctx, "text": text}
    R.breadcrumb(json.dumps(case))
    try:
        tree = parse(text)
    except Exception as e:
        R.violation("raises:" + exc_key(e), "parse raised %s" % type(e).__name__, case, exc_detail(e))
        return
    res = judge(tag, body, leaves(tree))
    R.count("triples_checked")
    R.count("ctx_" + ctx)
    R.count("tag_" + tag)
    nontrivial = bool(re.search(r"\{\{|\[\[|<[a-z!/]|''|&|\n[*:={]", body))
    R.case(h64(text), nontrivial, sample={"tag": tag, "context": ctx, "body": body})
    if res:
        key, what = res
        # minimise the body: drop atoms while the same key persists
        # the mechanism key is fixed by the body that failed; minimisation must stay within that mechanism
        key2 = refine_key(tag, body, key)
        small = minimise(tag, body, ctx, key, key2)
        R.violation(key2, what, dict(case, body=small, text=CONTEXTS[ctx] % ("%s <%s>%s</%s> %s" % (S1, tag, small, tag, S2))))


def refine_key(tag, small, key):
        feats = mech(tag, small, key)
        if tag == "pre" and "nested-nowiki" in feats and key.startswith("body-changed"):
            key2 = "pre:nested-nowiki-tags-stripped"
        elif any(f in feats for f in ("noinclude", "includeonly", "onlyinclude", "close-noinclude")):
            key2 = "include-directive-processed-inside-opaque-tag"
        elif tag == "syntaxhighlight" and "close-source" in feats:
            key2 = "syntaxhighlight:source-closer-ends-body"
        else:
            key2 = key + (":" + "+".join(feats[:2]) if feats else "")
        return key2


def minimise(tag, body, ctx, key, key2=None):
    from ..gen.shrink import shrink

    def fails(b):
        if re.search(r"</%s\s*>" % tag, b.lower()):
            return False
        t = CONTEXTS[ctx] % ("%s <%s>%s</%s> %s" % (S1, tag, b, tag, S2))
        try:
            r = judge(tag, b, leaves(parse(t)))
        except Exception:
            return False
        return bool(r) and r[0] == key and (key2 is None or refine_key(tag, b, r[0]) == key2)

    return shrink(body, fails, max_calls=80)


def roundtrip(R, rnd):
    from mwlib.utils.uniq import Uniquifier
    parts = []
    expected = []
    nreg = rnd.randint(1, 5)
    for i in range(nreg):
        seg = "".join(rnd.choice(("word ", "[[l]] ", "{{t|a}} ", "''i'' ", "\n* x\n", "| ", "= ", "<b>b</b> ", "&amp; ", "é ", "\n\n",
                                 "{|\n|c\n|}\n", "<br/>", "<div>", "</div>", "text", "\t", "x<y ", "a>b "))
                      for _ in range(rnd.randint(0, 6)))
        tag = rnd.choice(TAGS + ["ref", "gallery", "imagemap", "poem"])
        body = gen_body(rnd, tag)
        if re.search(r"<!--", body):
            body = body.replace("<!--", "<!-")
        region = "<%s>%s</%s>" % (tag, body, tag)
        parts.append(seg)
        parts.append(region)
        expected.append(seg)
        expected.append(body if tag == "nowiki" else region)
    tail = rnd.choice(("", " end", "\n"))
    text = "".join(parts) + tail
    want = "".join(expected) + tail
    case = {"roundtrip": text}
    u = Uniquifier()
    try:
        protected = u.replace_tags(text)
        back = u.replace_uniq(protected)
    except Exception as e:
        R.violation("roundtrip:raises:" + exc_key(e), "uniquifier raised %s" % type(e).__name__, case, exc_detail(e))
        return
    R.count("roundtrips_checked")
    R.case(h64(text), True)
    markers = re.findall("\x7fUNIQ-[a-z0-9]+-\\d+-[a-f0-9]+-QINU\x7f", protected)
    if len(markers) != len(set(markers)):
        R.violation("roundtrip:marker-reused", "two protected regions share one marker", case)
    if len(markers) != nreg:
        # regions may legitimately nest (an opaque body holding another tag's full element is still one region)
        if len(markers) > nreg:
            R.violation("roundtrip:extra-regions", "%d regions written, %d markers" % (nreg, len(markers)), case)
        else:
            R.violation("roundtrip:region-not-protected", "%d regions written, %d markers" % (nreg, len(markers)), case)
    if back != want:
        R.violation("roundtrip:text-changed", "protect+restore changed the text: %r -> %r" % (text[:200], back[:200]), case)


def judge_between(tag, body, lv, left, right):
    """judge() on the stretch between two arbitrary sentinel words"""
    lv2 = [(k, t.replace(left, S1).replace(right, S2) if k == "text" else t, n) for k, t, n in lv]
    # cut away everything outside [left, right] so that the other region does not count as 'between'
    return judge(tag, body, lv2)


def check_pair(R, rnd):
    """two regions on one page (the second possibly quoting the first one's source), or a region that comes
    out of a template while the page has its own regions - marker bookkeeping across regions and expanders"""
    if rnd.random() < 0.5:
        tag_b = rnd.choice(["math", "source", "timeline", "pre"])
        body_b = rnd.choice(("x^2", "a ''b''", "q [[r]]")) if rnd.random() < 0.7 else gen_body(rnd, tag_b)
        elem_b = "<%s>%s</%s>" % (tag_b, body_b, tag_b)
        if rnd.random() < 0.6 and "</nowiki" not in elem_b.lower():
            tag_a, body_a = "nowiki", elem_b            # nowiki quoting the other element verbatim
        else:
            tag_a = rnd.choice(TAGS)
            body_a = gen_body(rnd, tag_a)
        first = rnd.random() < 0.5
        ra = "<%s>%s</%s>" % (tag_a, body_a, tag_a)
        if first:
            text = "%s %s %s %s %s" % (S1, ra, MID, elem_b, S2)
            regions = [(tag_a, body_a, S1, MID), (tag_b, body_b, MID, S2)]
        else:
            text = "%s %s %s %s %s" % (S1, elem_b, MID, ra, S2)
            regions = [(tag_b, body_b, S1, MID), (tag_a, body_a, MID, S2)]
        kind = "two-regions"
        R.count("pairs_checked")
    else:
        name = rnd.choice(sorted(OPAQUE_TEMPLATES))
        tg, b = OPAQUE_TEMPLATES[name]
        pre = " ".join("<nowiki>own%d [[z]]</nowiki>" % i for i in range(rnd.randint(0, 4)))
        text = "%s %s {{%s}} %s" % (pre, S1, name, S2)
        regions = [(tg, b, S1, S2)]
        kind = "template-borne"
        R.count("template_borne_checked")
    case = {"pair": text, "regions": [list(r) for r in regions], "kind": kind}
    R.breadcrumb(json.dumps(case))
    try:
        lv = leaves(parse(text))
    except Exception as e:
        R.violation("raises:" + exc_key(e), "parse raised %s" % type(e).__name__, case, exc_detail(e))
        return
    R.case(h64(text), True, sample={"text": text[:200]})
    for tag, body, left, right in regions:
        # restrict to the stretch between the two sentinels
        res = judge_stretch(tag, body, lv, left, right)
        if res:
            k2 = refine_key(tag, body, res[0])
            R.violation(k2 if k2 != res[0] and not k2.startswith(res[0]) else "%s:%s" % (kind, res[0]), res[1], case)
            return


def judge_stretch(tag, body, lv, left, right):
    texts = "".join(t for k, t, _ in lv if k == "text")
    if texts.count(left) != 1 or texts.count(right) != 1:
        return ("surrounding-text-damaged", "sentinels %s/%s occur %d/%d times" % (left, right, texts.count(left), texts.count(right)))
    out = []
    state = 0
    for k, t, n in lv:
        if k == "text" and state == 0 and left in t:
            t = S1 + t.split(left, 1)[1]
            state = 1
            if right in t:
                t = t.split(right, 1)[0] + S2
                out.append((k, t, n))
                state = 2
                continue
            out.append((k, t, n))
            continue
        if state == 1:
            if k == "text" and right in t:
                out.append((k, t.split(right, 1)[0] + S2, n))
                state = 2
            else:
                out.append((k, t, n))
    return judge(tag, body, out)


GLUE = ["", " ", "\n", "http://example.org/a", "[http://example.org/a", "https://e.org/p?q=1", "//e.org/x", "ftp://e.org/f",
        "mailto:a@b.org", "[[Link]]", "[[Link|", "''", "'''", "x", "é", "&amp;", "<b>", "</b>", "<br/>", "{{t}}", "|", "=", ":", ";",
        "*", "#", "{|\n|", "\n|}", "==", "<ref>", "</ref>", "]", "]]", "__TOC__", "<!-- c -->", "~~~", "-"]
# (a pipe after a region in a table cell or link makes the region part of an attribute / target: not body text)
GLUE_INLINE = [g for g in GLUE if "|" not in g]
MULTI = {   # template -> (body, how many times the argument reaches the page)
    "twice": ("{{{1}}} and {{{1}}}", 2),
    "thrice": ("{{{1}}} [[L|{{{1}}}]] ''{{{1}}}''", 3),
    "twicen": ("{{{v}}}{{{v}}}", 2),
    "nested2": ("{{twice|{{{1}}}}}", 2),
}


def tree_strings(root):
    """every string the tree holds: (node class, attribute, value)"""
    out = []
    st = [root]
    while st:
        n = st.pop()
        for attr in ("caption", "target", "full_target", "url", "math", "tagname"):
            v = getattr(n, attr, None)
            if isinstance(v, str) and v:
                out.append((type(n).__name__, attr, v))
        vl = getattr(n, "vlist", None)
        if isinstance(vl, dict):
            for k, v in vl.items():
                if isinstance(v, str):
                    out.append((type(n).__name__, "vlist", v))
        st.extend(n.children)
    return out


def check_occurrences(R, kind, text, marks):
    """marks: {unique body word: expected number of occurrences in the tree's text}; no marker may leak"""
    case = {"shape": kind, "text": text, "marks": marks}
    R.breadcrumb(json.dumps(case))
    cfg = len(text) % 3 if (kind in ("glued", "inside-ref-then-again", "multi-line-body") and "{{" not in text) else 0
    nodb = cfg == 1
    if nodb:
        # the parser's other configuration: raw text without a wiki database (no template expansion)
        kind, case["nodb"] = kind + ":no-wikidb", True
        R.count("occurrence_checks_without_wikidb")
    elif cfg == 2:
        # a wiki database, but the page is stored already expanded (expand_templates=False)
        kind, case["noexpand"] = kind + ":expand_templates=False", True
        R.count("occurrence_checks_without_expansion")
    try:
        if nodb:
            from mwlib.parser.refine.uparser import parse_string
            tree = parse_string("T", raw=text, lang="en")
        elif cfg == 2:
            from mwlib.parser.refine.uparser import parse_string
            from ..gen.db import SynthDB
            tree = parse_string("T", text, SynthDB({}, "en"), lang="en", expand_templates=False)
        else:
            tree = parse(text)
    except Exception as e:
        R.violation("raises:" + exc_key(e), "parse raised %s" % type(e).__name__, case, exc_detail(e))
        return
    strs = tree_strings(tree)
    R.count("occurrence_checks")
    R.case(h64(text), True)
    for cls, attr, v in strs:
        if "\x7f" in v or "UNIQ-" in v or "-QINU" in v:
            R.violation("marker-leaked:%s:%s.%s" % (kind, cls, attr), "a protection marker reached the tree: %s.%s = %r" % (cls, attr, v[:80]), case)
            return
    alltext = "\x00".join(v for cls, attr, v in strs if attr == "caption")
    for word, n in (marks or {}).items():
        got = alltext.count(word)
        if got != n:
            R.violation("region-%s:%s" % ("lost" if got < n else "duplicated", kind),
                        "body %r should reach the tree %d time(s), found %d" % (word, n, got), case)
            return


def adjacency_cases(rnd, nrandom):
    k = 0
    for tag in TAGS:
        for pre_ in GLUE:
            for post in ("", " ", "x", "]", " label]", "\n", "</ref>", "''"):
                k += 1
                body = "''Bq%dz'' [[n]]" % k
                yield "glued", "%s<%s>%s</%s>%s tail" % (pre_, tag, body, tag, post), {body: 1}
    # a region inside the attribute text of a tag, known or unknown to the parser
    for tag in TAGS:
        for pre_, post in (("<foo ", ">"), ("<foo title=\"", "\">"), ("<video src=\"", "\"/>"), ("<unknowntag ", " x=1>"),
                           ("<div title=\"", "\">d</div>"), ("<br ", "/>")):
            k += 1
            body = "''Bq%dz''" % k
            yield "in-tag-attribute", "a %s<%s>%s</%s>%s b" % (pre_, tag, body, tag, post), None
    for tname, (tbody, times) in MULTI.items():
        for tag in TAGS:
            k += 1
            body = "''Bq%dz'' {{t}}" % k
            arg = "<%s>%s</%s>" % (tag, body, tag)
            call = "{{%s|v=%s}}" % (tname, arg) if tname == "twicen" else "{{%s|%s}}" % (tname, arg)
            yield "argument-used-%d-times" % times, "a %s b" % call, {body: times}
            yield "argument-used-%d-times" % times, "* %s\n* <%s>''Zq%dz''</%s>" % (call, tag, k, tag), {body: times, "''Zq%dz''" % k: 1}
    for tag in TAGS:
        for tag2 in TAGS:
            k += 1
            b1, b2, b3 = "''Bq%da''" % k, "''Bq%db''" % k, "''Bq%dc''" % k
            yield "inside-ref-then-again", "x<ref>r <%s>%s</%s></ref> y <%s>%s</%s> z<ref name=\"q\"><%s>%s</%s></ref>" % (
                tag, b1, tag, tag2, b2, tag2, tag, b3, tag), {b1: 1, b2: 1, b3: 1}
    # an opaque tag with a body of several lines inside <poem> / <ref> / a list item (continuation lines are the
    # body's, not the poem's)
    for tag in TAGS:
        for outer in ("<poem>x\n%s\ny</poem>", "<ref>r %s</ref>", "<blockquote>\n%s\n</blockquote>", "<poem>%s</poem>"):
            k += 1
            body = "Bq%dz line one\n    ''indented'' two\n: three" % k
            yield "multi-line-body", outer % ("<%s>%s</%s>" % (tag, body, tag)), {body: 1}
    # a region as the argument of a parser function that passes its argument through (markers must not be touched)
    for fn in ("lc:%s", "uc:%s", "lcfirst:%s", "ucfirst:%s", "lc:X%sY", "uc:x%sy", "padleft:%s|3", "padright:%s|3", "#if:1|%s",
               "#if:|n|%s", "#ifeq:a|a|%s", "#switch:q|#default=%s", "#switch:q|q=%s", "#tag:ref|%s", "#ifexpr:1|%s", "#if:1|{{lc:%s}}"):
        for tag in TAGS:
            k += 1
            body = "''Bq%dZ'' [[n]]" % k
            yield "function-argument", "a {{%s}} b" % (fn % ("<%s>%s</%s>" % (tag, body, tag))), {body: 1}
    # every single atom as the whole body, in every context (a body that is exactly '|' or '=' or a closer ...)
    for tag in TAGS:
        for atom in BODY_ATOMS:
            if re.search(r"</%s\s*>" % tag, atom.lower()) or "\x7f" in atom:
                continue
            for ctx in sorted(CONTEXTS):
                yield "single-atom", (tag, atom, ctx), None
    # an inclusion part that is dropped and holds a region, followed by a kept region
    for tag in TAGS:
        for tag2 in TAGS:
            k += 1
            kept, dropped = "''Kq%dz''" % k, "''Dq%dz''" % k
            yield "dropped-part-then-region", "<includeonly><%s>%s</%s></includeonly> x <%s>%s</%s> y" % (
                tag, dropped, tag, tag2, kept, tag2), {kept: 1, dropped: 0}
            yield "dropped-part-then-region", "a {{doc%s}} b <%s>''Pq%dz''</%s>" % (TAGS.index(tag), tag2, k, tag2), \
                {"''TK%dz''" % TAGS.index(tag): 1, "''TD%dz''" % TAGS.index(tag): 0, "''Pq%dz''" % k: 1}
    for _ in range(nrandom):
        k += 1
        parts, marks = [], {}
        for j in range(rnd.randint(2, 5)):
            tag = rnd.choice(TAGS)
            body = "''Bq%d_%dz''" % (k, j)
            parts.append(rnd.choice(GLUE_INLINE))
            x = rnd.random()
            region = "<%s>%s</%s>" % (tag, body, tag)
            if x < 0.2:
                tn = rnd.choice(sorted(MULTI))
                region = "{{%s|v=%s}}" % (tn, region) if tn == "twicen" else "{{%s|%s}}" % (tn, region)
                marks[body] = MULTI[tn][1]
            elif x < 0.35:
                region = "<ref>%s</ref>" % region
                marks[body] = 1
            else:
                marks[body] = 1
            parts.append(region)
        parts.append(rnd.choice(GLUE_INLINE))
        yield "random-adjacency", "".join(parts), marks


def run_shard(desc, R):
    import logging
    logging.disable(logging.CRITICAL)
    rnd = random.Random("C09:%s:%s:%s" % (desc["kind"], desc["seed"], desc["shard"]))
    if desc["kind"] == "adjacency":
        r2 = random.Random("C09:adjacency:%s" % desc["seed"])
        for i, (kind, text, marks) in enumerate(adjacency_cases(r2, desc["random"] * desc["n"])):
            if i % desc["n"] == desc["shard"]:
                if kind == "single-atom":
                    check_triple(R, *text)
                    R.count("single_atom_bodies")
                else:
                    check_occurrences(R, kind, text, marks)
        return
    if desc["kind"] == "pairs":
        for _ in range(desc["count"]):
            check_pair(R, rnd)
        return
    if desc["kind"] == "roundtrip":
        for _ in range(desc["count"]):
            roundtrip(R, rnd)
        return
    ctxs = sorted(CONTEXTS)
    for _ in range(desc["count"]):
        tag = rnd.choice(TAGS)
        check_triple(R, tag, gen_body(rnd, tag), rnd.choice(ctxs))


def replay(case):
    import logging
    logging.disable(logging.CRITICAL)
    from ..child import Recorder
    R = Recorder()
    if "pair" in case:
        lv = leaves(parse(case["pair"]))
        out = []
        for tag, body, left, right in case["regions"]:
            res = judge_stretch(tag, body, lv, left, right)
            if res:
                out.append(("%s:%s" % (case["kind"], res[0]), res[1], None))
        return out
    if "shape" in case:
        check_occurrences(R, case["shape"], case["text"], case["marks"])
        return [(v["key"], v["what"], None) for v in R.violations]
    if "roundtrip" in case:
        from mwlib.utils.uniq import Uniquifier
        u = Uniquifier()
        t = case["roundtrip"]
        print(repr(u.replace_uniq(u.replace_tags(t))))
        return [("roundtrip:replay", "see output", None)]
    res = judge(case["tag"], case["body"], leaves(parse(case["text"])))
    return [(res[0], res[1], None)] if res else []
