"""C07 Cleaning is lossless for ordinary content.

Before/after relation around the deployed TreeCleaner(tree).clean_all(): for every visible word its
position in reading order, the titles of its enclosing sections, its list-item depth and the ordinal of
its enclosing reference must be unchanged; words of tables with >=2 columns and >=2 rows must still be
inside a table.
"""
import json
import random

from ..child import exc_detail, exc_key, h64
from ..gen import grammar
from ..gen import wikitext as W

ID = "C07"
LEVEL = "exploration"
RULE = ("documents of C02's grammar restricted as the quantifier says (every section has body text, tables <=4x4 "
        "cells of a few words, no no-print classes / hidden styles / category or language links / 'See also' / edit "
        "links / empty sections / .ogg), 20-300 words, every site language; non-trivial = document has >=3 construct "
        "kinds and the cleaner changed the tree; distinct = distinct source texts")
ASSUMPTIONS = [
    "visible words = alphanumeric tokens of Text captions plus the target of label-less links, read by the harness's "
    "own walker (not get_all_display_text)",
    "a section is identified by the words of its heading; a reference by its ordinal in reading order",
]
REQUIRED = {"documents_compared": 500, "words_compared": 20000, "cleaner_changed_tree": 200, "tables_tracked": 100,
            "with_refs": 100, "with_lists": 100}
LEVEL_TEXT = ("Exploration: 1e4 (quick) / 5e5 (thorough) generated ordinary documents are cleaned by the real clean_all(); "
              "a before/after monitor compares word order, section path, item depth and reference membership of every "
              "visible word and the survival of qualifying tables.")
LEVEL_NOTE = "Only G's constructs below the cleaner's size heuristics; trusts the 60-line word walker."
TECHNIQUE = "before/after relational monitor around the real clean_all() over grammar-generated documents"


def plan(tier, seed):
    n = 16
    per = 600 if tier == "quick" else 30000
    return [{"shard": i, "count": per, "seed": seed} for i in range(n)]


def walk(root, first_use=False):
    """[(word, section_path, item_depth, ref_ordinal, in_table)] in reading order, plus table info.

    A named reference used (empty) before the place that defines its text can be read at either place:
    first_use=True reads the text at the first use (where MediaWiki numbers the footnote), False where
    the text was written."""
    import re
    word = re.compile(r"[A-Za-z0-9]+")
    out = []
    refcount = [0]
    tables = []     # (rows, cols, [words]) per Table node

    def heading_words(sec):
        if not sec.children:
            return ""
        ws = []
        st = [sec.children[0]]
        while st:
            n = st.pop()
            if type(n).__name__ == "Text":
                ws = word.findall(n.caption or "") + ws
            st.extend(n.children)
        return " ".join(sorted(ws))

    def has_words(node):
        st = [node]
        while st:
            x = st.pop()
            if type(x).__name__ == "Text" and word.search(x.caption or ""):
                return True
            if type(x).__name__ in ("ArticleLink", "NamespaceLink", "InterwikiLink", "SpecialLink", "Link") and not x.children:
                return True
            st.extend(x.children)
        return False

    moved_to, skip = {}, set()
    if first_use:
        uses, seen_def = {}, set()
        st = [root]
        order = []
        while st:
            x = st.pop()
            if type(x).__name__ == "Reference":
                order.append(x)
            st.extend(reversed(x.children))
        for x in order:
            name = (x.attributes.get("name") or "").strip('"')
            if not name or name in seen_def:
                continue
            if has_words(x):
                seen_def.add(name)
                if name in uses:
                    moved_to[id(uses[name])] = x
                    skip.add(id(x))
            elif name not in uses:
                uses[name] = x

    LINKS = {"NamedURL": "ext-link-label", "URL": "ext-link-label", "ArticleLink": "int-link-label",
             "NamespaceLink": "int-link-label", "InterwikiLink": "int-link-label", "SpecialLink": "int-link-label",
             "Link": "int-link-label"}
    inlink = [""]

    def rec(node, secs, depth, ref, tabs):
        n = type(node).__name__
        if n in LINKS and node.children:
            prev, inlink[0] = inlink[0], LINKS[n]
            try:
                return rec2(node, n, secs, depth, ref, tabs)
            finally:
                inlink[0] = prev
        return rec2(node, n, secs, depth, ref, tabs)

    def rec2(node, n, secs, depth, ref, tabs):
        if id(node) in skip:
            return
        if id(node) in moved_to:
            src = moved_to[id(node)]
            refcount[0] += 1
            for c in src.children:
                rec(c, secs, depth, refcount[0], tabs)
            return
        if n == "Text":
            for w in word.findall(node.caption or ""):
                out.append((w, secs, depth, ref, bool(tabs), inlink[0]))
                for t in tabs:
                    t[2].append(w)
            return
        if n in ("ArticleLink", "NamespaceLink", "InterwikiLink", "SpecialLink", "Link") and not node.children:
            for w in word.findall((node.target or "").replace("_", " ").split(":")[-1]):
                out.append((w.lower(), secs, depth, ref, bool(tabs), "target-shown"))
                for t in tabs:
                    t[2].append(w.lower())
            return
        if n == "URL" and not node.children:
            return
        if n == "Section":
            secs = secs + (heading_words(node),)
        elif n == "Item":
            depth += 1
        elif n == "Reference":
            # identity = ordinal among the references that hold text (an empty re-use of a named
            # reference may legitimately disappear)
            if has_words(node):
                refcount[0] += 1
                ref = refcount[0]
        elif n == "Table":
            rows = [c for c in node.children if type(c).__name__ == "Row"]
            cols = max([len([x for x in r.children if type(x).__name__ == "Cell"]) for r in rows] or [0])
            t = (len(rows), cols, [])
            tables.append(t)
            tabs = tabs + [t]
        for c in node.children:
            rec(c, secs, depth, ref, tabs)

    rec(root, (), 0, 0, [])
    walk.relocated = bool(moved_to)
    return out, tables


def compare(before, tables_before, after, before_alt=None):
    if before_alt is not None:
        # two readings of a forward-used named reference: judge against the one whose word order the cleaned tree
        # follows for longer
        r1 = _compare(before, tables_before, after)
        if r1 is None:
            return None
        r2 = _compare(before_alt[0], before_alt[1], after)
        if r2 is None:
            return None
        return r2 if _agree(before_alt[0], after) > _agree(before, after) else r1
    return _compare(before, tables_before, after)


def _agree(before, after):
    n = 0
    for b, a in zip(before, after):
        if b[0] != a[0]:
            break
        n += 1
    return n


def _compare(before, tables_before, after):
    bw = [b[0] for b in before]
    aw = [a[0] for a in after]
    if bw != aw:
        bs, as_ = set(bw), set(aw)
        missing = [w for w in bw if w not in as_]
        if missing:
            b = next(x for x in before if x[0] == missing[0])
            where = "ref" if b[3] else ("table" if b[4] else ("item" if b[2] else ("section" if b[1] else "intro")))
            if len(b) > 5 and b[5]:
                where += ":" + b[5]
            return ("words-dropped:in-" + where, "%d visible words lost by cleaning, first %r (section %r, item depth %d, ref %d)" % (
                len(missing), missing[0], b[1], b[2], b[3]))
        extra = [w for w in aw if w not in bs]
        if extra:
            return ("words-added", "cleaning introduced words %r" % extra[:5])
        if sorted(bw) != sorted(aw):
            return ("words-duplicated", "cleaning duplicated words")
        i = next(i for i, (x, y) in enumerate(zip(bw, aw)) if x != y)
        b = before[i]
        where = "ref" if b[3] else ("table" if b[4] else ("item" if b[2] else "text"))
        return ("reading-order-changed:in-" + where, "reading order differs at word %d: %r before, %r after" % (i, bw[i], aw[i]))
    for b, a in zip(before, after):
        if b[1] != a[1]:
            return ("section-changed", "word %r was under sections %r, after cleaning under %r" % (b[0], b[1], a[1]))
        if b[2] != a[2]:
            return ("item-depth-changed", "word %r had list-item depth %d, after cleaning %d" % (b[0], b[2], a[2]))
        if b[3] != a[3]:
            return ("reference-changed", "word %r was in reference %d, after cleaning in %d" % (b[0], b[3], a[3]))
    in_table_after = {a[0] for a in after if a[4]}
    for rows, cols, words in tables_before:
        if rows >= 2 and cols >= 2:
            lost = [w for w in words if w not in in_table_after]
            if lost:
                return ("table-dissolved", "a %dx%d table was dissolved: %r no longer inside a table" % (rows, cols, lost[:4]))
    return None


def culprit(text, lang, kind):
    """name of the first cleaner pass after which the same kind of difference is visible"""
    import contextlib
    import io
    from mwlib.parser import advtree
    from mwlib.parser.refine.uparser import parse_string
    from mwlib.parser.treecleaner import TreeCleaner
    from ..gen.db import SynthDB
    tree = parse_string("T", text, SynthDB({}, lang), lang=lang)
    advtree.build_advanced_tree(tree)
    before, tables_before = walk(tree)
    alt = walk(tree, first_use=True)
    alt = alt if walk.relocated else None
    tc = TreeCleaner(tree, save_reports=False)
    for name in TreeCleaner.cleaner_methods:
        try:
            with contextlib.redirect_stdout(io.StringIO()), contextlib.redirect_stderr(io.StringIO()):
                getattr(tc, name)(tree)
        except Exception:
            continue
        after, _ = walk(tree)
        r = compare(before, tables_before, after, alt)
        if r and r[0] == kind:
            return name
    return "several-passes"


def check_text(text, lang):
    """returns (finding or None, stats)"""
    import contextlib
    import io
    import mwlib.parser.expander  # noqa
    from mwlib.parser import advtree
    from mwlib.parser.refine.uparser import parse_string
    from mwlib.parser.treecleaner import TreeCleaner
    from ..gen.db import SynthDB
    from .treecommon import snapshot
    tree = parse_string("T", text, SynthDB({}, lang), lang=lang)
    advtree.build_advanced_tree(tree)
    before, tables_before = walk(tree)
    alt = walk(tree, first_use=True)
    alt = alt if walk.relocated else None
    snap = snapshot(tree)
    tc = TreeCleaner(tree, save_reports=True)
    with contextlib.redirect_stdout(io.StringIO()), contextlib.redirect_stderr(io.StringIO()):
        tc.clean_all()
    errs = [r for r in tc.get_reports() if r[1].startswith("'ERROR:'")]
    after, tables_after = walk(tree)
    res = compare(before, tables_before, after, alt)
    if res:
        res = (res[0] + ":" + culprit(text, lang, res[0]), res[1])
    stats = {"words": len(before), "changed": snapshot(tree) != snap,
             "tables": sum(1 for t in tables_before if t[0] >= 2 and t[1] >= 2), "errors": len(errs),
             "refs": any(b[3] for b in before), "fwd_refs": alt is not None, "lists": any(b[2] for b in before)}
    return res, stats


def max_table_chars(doc):
    """display-text size of the largest top-level table of the document (nested tables count towards it)"""
    best = [0]

    def size(b):
        fake = ("doc", [b], [])
        return sum(len(w) + 1 for w, _ in grammar.denotation(fake))

    def blocks(bs):
        for b in bs:
            if b[0] == "table":
                best[0] = max(best[0], size(b))

    def section(s):
        blocks(s[3])
        for sub in s[4]:
            section(sub)

    blocks(doc[1])
    for s in doc[2]:
        section(s)
    return best[0]


def run_shard(desc, R):
    import logging
    logging.disable(logging.CRITICAL)
    rnd = random.Random("C07:%s:%s" % (desc["seed"], desc["shard"]))
    for _ in range(desc["count"]):
        lang = rnd.choice(W.LANGS)
        seed = rnd.getrandbits(48)
        maxwords = rnd.choice((30, 80, 150, 300))
        one(R, seed, lang, maxwords)


def one(R, seed, lang, maxwords):
    r2 = random.Random(seed)
    doc, text = grammar.make(r2, maxwords=maxwords, for_clean=True)
    if max_table_chars(doc) >= 2300:
        # the quantifier stays below the cleaner's size heuristics (tables < 2500 characters)
        R.skip()
        return
    case = {"gen_seed": seed, "lang": lang, "maxwords": maxwords, "text": text}
    R.breadcrumb(json.dumps(case))
    kinds = {lab[0] for _, c in grammar.denotation(doc) for lab in c}
    try:
        res, st = check_text(text, lang)
    except Exception as e:
        R.violation("raises:" + exc_key(e), "clean_all or parsing raised %s" % type(e).__name__, case, exc_detail(e))
        R.case(h64(text), False)
        return
    R.count("documents_compared")
    R.count("words_compared", st["words"])
    if st["changed"]:
        R.count("cleaner_changed_tree")
    R.count("tables_tracked", st["tables"])
    if st["refs"]:
        R.count("with_refs")
    if st["fwd_refs"]:
        R.count("with_named_ref_used_before_its_text")
    if st["lists"]:
        R.count("with_lists")
    if st["errors"]:
        R.count("clean_all_error_reports_(C06_matter)", st["errors"])
    R.case(h64(text), len(kinds) >= 3 and st["changed"], sample={"text": text[:300], "lang": lang})
    if res:
        # smaller document with the same generator seed and the same mechanism
        for mw in (10, 20, 40, 80):
            if mw >= maxwords:
                break
            d2, t2 = grammar.make(random.Random(seed), maxwords=mw, for_clean=True)
            try:
                r3, _ = check_text(t2, lang)
            except Exception:
                continue
            if r3 and r3[0] == res[0]:
                case = dict(case, text=t2, maxwords=mw)
                break
        R.violation(res[0], res[1], case)


def replay(case):
    import logging
    logging.disable(logging.CRITICAL)
    res, st = check_text(case["text"], case["lang"])
    print(case["text"])
    return [(res[0], res[1], None)] if res else []
