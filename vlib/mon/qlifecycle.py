"""Server life cycle for C18: the real qserve.Main.run loop on a loopback socket inside this process (gevent),
stopped in each of the ways a server loop can end - KeyboardInterrupt (ctrl-c), the stream server being stopped,
the loop's greenlet being killed - and started again from its data directory, several cycles in a row.

The client side keeps its own record (unique ids, what it finished with which result); after every restart the
record is compared with what the new server answers over the wire (qinfo of every id, a draining worker, a new
server-assigned id).  Nothing is read from the server's objects.
"""
import json
import random
import shutil
import tempfile

import gevent
from gevent import socket as gsocket


class Client:
    def __init__(self, port):
        self.sock = gsocket.create_connection(("127.0.0.1", port), timeout=10)
        self.f = self.sock.makefile("rw")

    def call(self, name, **kw):
        self.f.write(json.dumps([name, kw]) + "\n")
        self.f.flush()
        with gevent.Timeout(10, False):
            line = self.f.readline()
            return json.loads(line) if line else None
        return None

    def send(self, name, **kw):
        self.f.write(json.dumps([name, kw]) + "\n")
        self.f.flush()

    def close(self):
        for x in (self.f, self.sock):
            try:
                x.close()
            except Exception:
                pass


STOP_MODES = ("ctrl-c", "server-stopped", "loop-killed")


def lifecycle(seed, cycles=3):
    """returns (findings [(key, what)], observations)"""
    import logging
    logging.disable(logging.CRITICAL)
    from qs import qserve
    rnd = random.Random(seed)
    datadir = tempfile.mkdtemp(prefix="verif-qlife-")
    findings = []
    obs = {"lifecycle_cycles": 0, "lifecycle_jobs": 0, "lifecycle_restored_unfinished": 0, "lifecycle_restored_finished": 0}
    known = {}       # jobid (as the server returned it) -> {"done": bool, "result": ..., "channel": ...}
    used_auto = set()
    modes = []
    try:
        for cycle in range(cycles):
            try:
                main = qserve.Main(0, "127.0.0.1", datadir, None)
            except BaseException as e:
                findings.append(("lifecycle:start-raises:%s" % type(e).__name__,
                                 "starting from the saved state raised %s after stops %r" % (type(e).__name__, modes)))
                break
            g = gevent.spawn(main.run)
            for _ in range(200):
                gevent.sleep(0.005)
                if getattr(main, "server", None) is not None and main.port:
                    break
            else:
                findings.append(("lifecycle:server-did-not-start", "Main.run did not start listening"))
                break
            port = main.port
            c = Client(port)
            # ---- what the restarted server knows -------------------------------------------------
            if cycle:
                for jid, rec in sorted(known.items(), key=str):
                    r = c.call("qinfo", jobid=jid)
                    snap = (r or {}).get("result")
                    if not snap:
                        findings.append(("lifecycle:job-lost:%s" % modes[-1], "job %r (done=%s) is unknown after a restart (stop: %s)" % (
                            jid, rec["done"], modes[-1])))
                        continue
                    if bool(snap.get("done")) != rec["done"]:
                        findings.append(("lifecycle:done-flag-changed:%s" % modes[-1], "job %r: done=%r before the stop, %r after the restart" % (
                            jid, rec["done"], snap.get("done"))))
                    elif rec["done"]:
                        obs["lifecycle_restored_finished"] += 1
                        if snap.get("result") != rec["result"]:
                            findings.append(("lifecycle:result-changed:%s" % modes[-1], "job %r: result %r became %r" % (jid, rec["result"], snap.get("result"))))
                # unfinished jobs must be pullable again, exactly once each
                w = Client(port)
                got = []
                for _ in range(len(known) + 2):
                    w.send("qpull", channels=[])
                    with gevent.Timeout(0.3, False):
                        line = w.f.readline()
                        r = json.loads(line) if line else None
                        if r and isinstance(r.get("result"), dict):
                            got.append(r["result"]["jobid"])
                            continue
                    break
                want = sorted((j for j, rec in known.items() if not rec["done"]), key=str)
                if sorted(got, key=str) != want:
                    findings.append(("lifecycle:unfinished-jobs-not-pullable:%s" % modes[-1],
                                     "after the restart a draining worker got %r, unfinished jobs are %r" % (got, want)))
                obs["lifecycle_restored_unfinished"] += len(want)
                # this worker finishes what it got (so that later cycles start from a mixed state)
                for jid in got:
                    if rnd.random() < 0.5:
                        res = "late:%s" % jid
                        if c.call("qfinish", jobid=jid, result=res) is not None and jid in known:
                            known[jid].update(done=True, result=res)
                w.close()        # whatever it still holds goes back to the queue
                gevent.sleep(0.02)
            # ---- activity --------------------------------------------------------------------------
            nnew = rnd.randint(1, 4)
            for k in range(nnew):
                ch = rnd.choice("ab")
                if rnd.random() < 0.5:
                    r = c.call("qadd", channel=ch, priority=rnd.choice((0, 1)), timeout=3600)
                    jid = (r or {}).get("result")
                    if jid in used_auto or jid in known:
                        findings.append(("lifecycle:id-reused:%s" % (modes[-1] if modes else "first-run"),
                                         "the server assigned id %r which an earlier job already had" % (jid,)))
                    used_auto.add(jid)
                else:
                    jid = "c%d-%d" % (cycle, k)
                    r = c.call("qadd", channel=ch, priority=0, jobid=jid, timeout=3600)
                if r is None or "error" in (r or {}):
                    findings.append(("lifecycle:add-failed", "qadd answered %r" % (r,)))
                    continue
                known[jid] = {"done": False, "result": None, "channel": ch}
                obs["lifecycle_jobs"] += 1
            worker = Client(port)
            for _ in range(rnd.randint(0, 2)):
                worker.send("qpull", channels=[])
                with gevent.Timeout(0.3, False):
                    line = worker.f.readline()
                    r = json.loads(line) if line else None
                    if r and isinstance(r.get("result"), dict):
                        jid = r["result"]["jobid"]
                        if rnd.random() < 0.6:
                            res = {"url": "u:%s" % jid, "n": cycle}
                            if worker.call("qfinish", jobid=jid, result=res) is not None and jid in known:
                                known[jid].update(done=True, result=res)
            # ---- stop --------------------------------------------------------------------------------
            mode = STOP_MODES[(seed + cycle) % len(STOP_MODES)] if cycle < len(STOP_MODES) else rnd.choice(STOP_MODES)
            modes.append(mode)
            try:
                if mode == "ctrl-c":
                    g.kill(KeyboardInterrupt, block=True, timeout=10)
                elif mode == "server-stopped":
                    main.server.stream_server.stop()
                    g.join(10)
                else:
                    g.kill(block=True, timeout=10)
            except BaseException as e:
                findings.append(("lifecycle:stop-raises:%s:%s" % (mode, type(e).__name__), "stopping the server loop (%s) raised %r" % (mode, e)))
            if not g.dead:
                findings.append(("lifecycle:loop-did-not-end:%s" % mode, "Main.run still running after stop (%s)" % mode))
                g.kill(block=False)
            elif g.exception is not None and not isinstance(g.exception, (KeyboardInterrupt, gevent.GreenletExit)):
                findings.append(("lifecycle:loop-raises:%s:%s" % (mode, type(g.exception).__name__),
                                 "Main.run ended with %r when stopped (%s)" % (g.exception, mode)))
            for x in (c, worker):
                x.close()
            gevent.sleep(0.02)
            obs["lifecycle_cycles"] += 1
            obs["lifecycle_stop_" + mode] = obs.get("lifecycle_stop_" + mode, 0) + 1
    finally:
        shutil.rmtree(datadir, True)
    # one finding per key
    seen, out = set(), []
    for k, w in findings:
        if k not in seen:
            seen.add(k)
            out.append((k, w))
    return out, obs
