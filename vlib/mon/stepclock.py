"""Logical time for Python code: ticks per function entry and per taken jump inside the tree under test.

Deterministic function of input and code (no wall clock).  `with budget(n):` raises
StepBudgetExceeded (a BaseException, re-raised on every further tick once exhausted) when more than
n ticks are consumed - used as the "hangs" verdict; `ticks()` reads the counter for growth ladders.
"""
import os
import sys
from contextlib import contextmanager

mon = sys.monitoring
TOOL = 4
E = mon.events


class StepBudgetExceeded(BaseException):
    pass


_state = {"count": 0, "limit": None, "on": False, "prefix": None, "funcs": None}


def _relevant(code):
    return code.co_filename.startswith(_state["prefix"])


def _tick(code):
    st = _state
    st["count"] += 1
    if st["limit"] is not None and st["count"] > st["limit"]:
        raise StepBudgetExceeded("more than %d steps" % st["limit"])


def _on_start(code, off):
    if not _relevant(code):
        return mon.DISABLE
    f = _state["funcs"]
    if f is not None:
        f.add(code.co_qualname)
    _tick(code)


def _on_jump(code, off, dst):
    if not _relevant(code):
        return mon.DISABLE
    if dst < off:          # backward jump = one loop iteration
        _tick(code)


def install():
    if _state["on"]:
        return
    _state["prefix"] = os.path.join(os.environ.get("VERIF_REPO", "/repo"), "src") + os.sep
    mon.use_tool_id(TOOL, "verif-stepclock")
    mon.register_callback(TOOL, E.PY_START, _on_start)
    mon.register_callback(TOOL, E.PY_RESUME, _on_start)
    mon.register_callback(TOOL, E.JUMP, _on_jump)
    _state["on"] = True


@contextmanager
def budget(limit=None, funcs=None):
    install()
    st = _state
    st["count"] = 0
    st["limit"] = limit
    st["funcs"] = funcs
    mon.set_events(TOOL, E.PY_START | E.PY_RESUME | E.JUMP)
    try:
        yield st
    finally:
        mon.set_events(TOOL, 0)
        st["limit"] = None
        st["funcs"] = None


def ticks():
    return _state["count"]
