"""Real worker for C19: a real qserve process, a real worker process built on qs.slave.main() whose render
command ends in each of the ways a render can end (returns a result, returns nothing, raises with a message,
raises without one, bare assert, MemoryError, SystemExit-free crash), and the real nserve.Application asking for
status through qs.rpcclient.  The reference is what the command did, not what the queue recorded.
"""
import contextlib
import io
import os
import socket
import subprocess
import sys
import time

WORKER_CODE = r"""
import os, sys
from qs import slave


class Commands:
    def rpc_makezip(self, params=None):
        return None

    def rpc_render(self, params=None):
        mode = params.get("writer_options")
        cid = params["collection_id"] if "collection_id" in params else "x"
        if mode == "ok":
            return {"url": "http://cache.test/%s/output.rl" % cid, "size": 3, "suggested_filename": "Book"}
        if mode == "none":
            return None
        if mode == "message":
            raise RuntimeError("render exploded")
        if mode == "no-message":
            raise RuntimeError()
        if mode == "assert":
            assert os.path.exists("/nonexistent/output.rl")
        if mode == "memory":
            raise MemoryError()
        if mode == "keyerror":
            return {}["missing"]
        if mode == "unicode":
            raise ValueError("käputt ☠")
        raise ValueError("unknown mode %r" % (mode,))


slave.main(Commands, host="127.0.0.1", port=int(sys.argv[1]), numgreenlets=1)
"""

MODES = {"ok": "finished", "none": "finished", "message": "failed", "no-message": "failed", "assert": "failed",
         "memory": "failed", "keyerror": "failed", "unicode": "failed"}


def free_port():
    s = socket.socket()
    s.bind(("127.0.0.1", 0))
    p = s.getsockname()[1]
    s.close()
    return p


def run(workdir, modes=None):
    """returns (findings [(key, what)], observations)"""
    from mwlib.core import nserve
    from qs import rpcclient
    modes = list(modes or MODES)
    port = free_port()
    env = dict(os.environ)
    quiet = "import logging; logging.disable(logging.CRITICAL)\n"
    srv = subprocess.Popen([sys.executable, "-c", quiet + "from qs.qserve import main; main(['-p', '%d', '-i', '127.0.0.1'])" % port],
                           env=env, stdout=subprocess.DEVNULL, stderr=subprocess.DEVNULL)
    wcode = os.path.join(workdir, "c19_worker.py")
    with open(wcode, "w") as f:
        f.write(quiet + WORKER_CODE)
    wrk = None
    findings, obs = [], {"worker_jobs": 0}
    try:
        for _ in range(100):
            try:
                socket.create_connection(("127.0.0.1", port), timeout=0.2).close()
                break
            except OSError:
                time.sleep(0.05)
        else:
            return [("worker:server-did-not-start", "qserve did not listen")], obs
        wrk = subprocess.Popen([sys.executable, wcode, str(port)], env=env, stdout=subprocess.DEVNULL, stderr=subprocess.DEVNULL)
        app = nserve.Application()
        app.qserve = rpcclient.ServerProxy(host="127.0.0.1", port=port)
        cids = {}
        for i, mode in enumerate(modes):
            cid = "%016x" % (0xc19000 + i)
            cids[mode] = cid
            with contextlib.redirect_stdout(io.StringIO()):
                app.do_render(cid, {"metabook": "{}", "writer": "rl", "base_url": "http://w.test/w/", "writer_options": mode}, is_new=True)
        deadline = time.time() + 60
        answers = {}
        while time.time() < deadline and len(answers) < len(modes):
            for mode, cid in cids.items():
                if mode in answers:
                    continue
                with contextlib.redirect_stdout(io.StringIO()):
                    st = app.do_render_status(cid, {"writer": "rl"})
                if st.get("state") in ("finished", "failed"):
                    answers[mode] = st
            time.sleep(0.1)
        for mode in modes:
            st = answers.get(mode)
            obs["worker_jobs"] += 1
            if st is None:
                findings.append(("worker:status-never-final:%s" % mode, "render command ending by %r: status still in progress after 60 s" % mode))
                continue
            obs["worker_" + MODES[mode]] = obs.get("worker_" + MODES[mode], 0) + 1
            if st.get("state") != MODES[mode]:
                findings.append(("worker:state:%s-reported-as-%s:%s" % (MODES[mode], st.get("state"), mode),
                                 "the render command ended by %r, status says %r (%r)" % (mode, st.get("state"), st)))
            elif MODES[mode] == "failed" and not st.get("error"):
                findings.append(("worker:failed-without-error:%s" % mode, "status 'failed' carries no error text for %r" % mode))
        return findings, obs
    finally:
        for p in (wrk, srv):
            if p is not None:
                p.kill()
                p.wait()
