"""Engine for C16-C19: the real qs.jobs.workq + qs.qserve.QPlugin + qs.rpcserver.Server.handle_client
on the real gevent hub, with only the socket replaced by an in-memory object.

A history is a list of ops (see OPS below).  Call/return events are recorded at the client
boundary (request line written / response line read).  The order in which the server
*dispatched* requests and ran connection shutdowns is recorded too (by subclassing the request
handler in the harness) and is used by the checker as the linearisation of one scheduling
quantum - the server is cooperative, so each dispatched request runs atomically up to its first
real suspension point.
"""
import atexit
import json
import os
import shutil
import tempfile

import gevent
from gevent import queue

from qs import jobs, qserve, rpcserver


_SCRATCH = [None, 0]


def _data_dir():
    """a fresh, empty data directory for one engine (under one per-process scratch directory)"""
    if _SCRATCH[0] is None:
        _SCRATCH[0] = tempfile.mkdtemp(prefix="verif-qs-")
        atexit.register(shutil.rmtree, _SCRATCH[0], True)
    _SCRATCH[1] += 1
    d = os.path.join(_SCRATCH[0], "d%d" % _SCRATCH[1])
    os.mkdir(d)
    return d


class RestartFailed(Exception):
    def __init__(self, phase, exc):
        Exception.__init__(self, "%s raised %r" % (phase, exc))
        self.phase, self.exc = phase, exc


class VClock:
    def __init__(self):
        self.now = 1000000.0

    def time(self):
        return self.now


class ScriptedRandom:
    """Stands in for the `random` module inside qs.jobs: choice() driven by the schedule."""

    def __init__(self):
        self.script = []
        self.calls = 0
        self.sizes = []

    def choice(self, seq):
        k = self.script[self.calls % len(self.script)] if self.script else 0
        self.calls += 1
        self.sizes.append(len(seq))
        return seq[k % len(seq)]


class FakeFile:
    def __init__(self, sock):
        self.sock = sock

    def readline(self):
        return self.sock.inq.get()

    def write(self, s):
        self.sock.out.append(s)
        FakeSock.wseq += 1
        self.sock.outseq.append(FakeSock.wseq)

    def flush(self):
        pass

    def close(self):
        pass


class FakeSock:
    wseq = 0

    def __init__(self):
        self.outseq = []
        self.inq = queue.Queue()
        self.out = []
        self.closed = False

    def makefile(self, mode):
        return FakeFile(self)

    def close(self):
        self.closed = True


class Conn:
    def __init__(self, name, sock, greenlet):
        self.name = name
        self.sock = sock
        self.g = greenlet
        self.sent = 0          # requests written
        self.read = 0          # responses consumed by the harness
        self.open = []         # indices (into engine.events) of unanswered calls, FIFO
        self.disconnected = False


class Engine:
    SETTLE = 6

    def __init__(self, names=("w1", "w2", "w3", "c1", "c2")):
        self.clock = VClock()
        self.rnd = ScriptedRandom()
        jobs.time = self.clock
        jobs.random = self.rnd
        # the real qserve.Main owns the database: loaddb at start, savedb at stop
        self.data_dir = _data_dir()
        self.main = qserve.Main(0, "127.0.0.1", self.data_dir, None)
        self.db = self.main.db
        self.events = []       # client-boundary + dispatch-order log
        self.conns = {}
        self.generation = 0
        self._mk_server()
        for n in names:
            self.connect(n)
        self.run()

    # -- server side -------------------------------------------------------------------
    def _mk_server(self):
        eng = self
        workq = self.db.workq

        class Handler(rpcserver.RequestHandler, qserve.QPlugin):
            def __init__(self, **kw):
                super().__init__(**kw)
                self._vname = None

            def __call__(self, req):
                eng.events.append({"t": "dispatch", "conn": self._vname, "req": req})
                return super().__call__(req)

            def shutdown(self):
                eng.events.append({"t": "shutdown", "conn": self._vname,
                                   "running": list(self.running_jobs)})
                return super().shutdown()

        Handler.workq = workq
        Handler.db = self.db
        self.Handler = Handler
        srv = rpcserver.Server.__new__(rpcserver.Server)
        srv.client_count = 0
        srv.is_allowed = lambda ip: True
        srv.secret = None

        def factory(**kw):
            h = Handler(**kw)
            h._vname = factory.next_name
            self.handlers[factory.next_name] = h
            return h

        factory.next_name = None
        self.handlers = {}
        srv.get_request_handler = factory
        self.factory = factory
        self.srv = srv

    def connect(self, name):
        sock = FakeSock()
        self.factory.next_name = name
        g = rpcserver.ClientGreenlet(self.srv.handle_client, sock, ("10.0.0.1", 1000 + len(self.conns)))
        g.start()
        # let the handler come up to its first lineq.get() so that later request chains are
        # equally long for every connection (deterministic dispatch order)
        for _ in range(3):
            gevent.sleep(0)
        c = Conn(name, sock, g)
        self.conns[name] = c
        return c

    # -- client boundary ---------------------------------------------------------------
    def send(self, name, method, **kw):
        c = self.conns[name]
        ev = {"t": "call", "conn": name, "method": method, "args": kw, "ret": None,
              "clock": self.clock.now}
        self.events.append(ev)
        c.open.append(ev)
        c.sent += 1
        c.sock.inq.put(json.dumps((method, kw)) + "\n")
        return ev

    def disconnect(self, name):
        c = self.conns[name]
        c.disconnected = True
        self.events.append({"t": "disconnect", "conn": name})
        c.sock.inq.put("")

    def _sig(self):
        return tuple((len(c.sock.out), c.sock.inq.qsize(), getattr(c.g, "status", ""), c.g.dead)
                     for c in self.conns.values()) + (len(self.db.workq._waiters), len(self.events))

    def run(self, maxiter=400):
        """Let the event loop run until quiescent; collect responses."""
        stable, last, it = 0, None, 0
        while stable < self.SETTLE and it < maxiter:
            gevent.sleep(0)
            it += 1
            self._collect()
            s = self._sig()
            if s == last:
                stable += 1
            else:
                stable, last = 0, s
        self.events.append({"t": "quiescent", "iters": it, "converged": stable >= self.SETTLE})
        return it

    def _collect(self):
        for c in self.conns.values():
            while c.read < len(c.sock.out):
                line = c.sock.out[c.read]
                c.read += 1
                resp = json.loads(line)
                if c.open:
                    ev = c.open.pop(0)
                    ev["ret"] = resp
                    ev["wseq"] = c.sock.outseq[c.read - 1]
                    self.events.append({"t": "return", "conn": c.name, "call": ev})
                else:
                    self.events.append({"t": "stray-response", "conn": c.name, "resp": resp})

    def tick(self, dt):
        """Advance the virtual clock and run the server's periodic loops once, as Main.run's
        CallInLoop greenlets would."""
        self.clock.now += dt
        self.events.append({"t": "tick", "dt": dt, "now": self.clock.now})
        self.main.handletimeouts()
        self.main.watchdog()

    def advance(self, dt):
        """the clock moves, the periodic loops do not run (control for a restart with downtime)"""
        self.clock.now += dt
        self.events.append({"t": "advance", "dt": dt, "now": self.clock.now})

    def restart(self, downtime=0):
        """Stop the server and start it again from its saved state: Main.savedb (as Main.run's
        finally does, before any connection's shutdown ran), drop every connection, let `downtime`
        pass, then a new Main loads the data directory."""
        try:
            self.main.savedb()
        except Exception as e:
            raise RestartFailed("savedb", e)
        qpath = os.path.join(self.data_dir, "workq.pickle")
        self.events.append({"t": "restart", "bytes": os.path.getsize(qpath) if os.path.exists(qpath) else -1,
                            "downtime": downtime, "now": self.clock.now + downtime})
        old = list(self.conns.values())
        for c in old:
            c.g.kill(block=False)
        for _ in range(4):
            gevent.sleep(0)
        self.clock.now += downtime
        try:
            self.main = qserve.Main(0, "127.0.0.1", self.data_dir, None)
        except Exception as e:
            raise RestartFailed("loaddb", e)
        self.db = self.main.db
        self.generation += 1
        names = [c.name for c in old]
        self.conns = {}
        self._mk_server()
        for n in names:
            self.connect(n)
        self.run()

    # -- white-box snapshot (localisation only; decides nothing) ------------------------
    def snapshot(self):
        wq = self.db.workq
        return {
            "queues": {ch: [(j.jobid, j.priority, j.serial, j.done) for j in sorted(q, key=lambda j: (j.priority, j.serial))]
                       for ch, q in wq.channel2q.items()},
            "running": {n: sorted(map(str, h.running_jobs)) for n, h in self.handlers.items()
                        if not self.conns[n].g.dead},
            "waiters": len(wq._waiters),
            "id2job": {str(k): (v.done, v.error) for k, v in wq.id2job.items()},
        }

    def close(self):
        for c in self.conns.values():
            if not c.g.dead:
                c.g.kill(block=False)
        for _ in range(3):
            gevent.sleep(0)
        shutil.rmtree(self.data_dir, True)
