"""K - a synthetic MediaWiki for C11, served through a subclass of the real API client.

Only the HTTP layer (MwApi._fetch) and the image download client are replaced; do_request, continuation,
result merging, batching, semaphores, the Fetcher and FsOutput are the real code.  K speaks the
`query-continue` dialect this client understands.  Every request is logged; every response is delayed
by gevent.sleep(d) with d drawn from a seeded RNG - the only yield points the fetcher's greenlets
have, so different latency seeds are different interleavings at real suspension points.
"""
import hashlib
import json
import re
import urllib.parse


class Wiki:
    """ground truth + API semantics of one wiki (local or shared repository)"""

    def __init__(self, host, siteinfo):
        self.host = host
        self.si = siteinfo
        self.pages = {}        # title -> {"ns", "revs": [(revid, text, user, anon)], "contributors": [names], "anon": n, "pageid"}
        self.files = {}        # "File:X.png" -> {"bytes", "repo": "local"|"shared"}
        self.shared = None     # Wiki serving shared-repository description pages
        self.nextid = 1

    # ---- construction ------------------------------------------------------------------------
    def add_page(self, title, ns, revs, contributors=(), anon=0):
        self.pages[title] = {"ns": ns, "revs": list(revs), "contributors": list(contributors), "anon": anon,
                             "pageid": self.nextid}
        self.nextid += 1

    def current(self, title):
        return self.pages[title]["revs"][-1]

    # ---- MediaWiki semantics -----------------------------------------------------------------
    def redirect_target(self, title):
        p = self.pages.get(title)
        if p is None:
            return None
        m = re.match(r"\s*#REDIRECT\s*\[\[([^\]|]+)", p["revs"][-1][1], re.I)
        return norm_title(m.group(1)) if m else None

    def resolve(self, title):
        """API redirects=1: follow the chain; returns (final title or None for cycles, [(from,to)...])"""
        hops = []
        seen = {title}
        cur = title
        while True:
            t = self.redirect_target(cur)
            if t is None:
                return cur, hops
            hops.append((cur, t))
            if t in seen:
                return None, hops          # circular: dropped
            seen.add(t)
            cur = t

    def expand(self, text, depth=0, args=None, seen=()):
        """template expansion as the server does it (transclusion follows exactly one redirect)"""
        if args is not None:
            def par(m):
                name, _, default = m.group(1).partition("|")
                if name.strip() in args:
                    return args[name.strip()]
                return default if "|" in m.group(1) else m.group(0)
            text = re.sub(r"\{\{\{([^{}]*)\}\}\}", par, text)

        def rep(m):
            inner = m.group(1)
            parts = inner.split("|")
            name = parts[0].strip()
            if name.startswith(":"):
                t = norm_title(name[1:])
            else:
                t = "Template:" + norm_title(name)
            a = {}
            pos = 0
            for p in parts[1:]:
                if "=" in p:
                    k, v = p.split("=", 1)
                    a[k.strip()] = v.strip()
                else:
                    pos += 1
                    a[str(pos)] = p
            page = self.pages.get(t)
            if page is not None:
                r = self.redirect_target(t)
                if r is not None and r in self.pages:
                    t, page = r, self.pages[r]
            if page is None or depth > 8 or t in seen:
                return "[[:%s]]" % t
            return self.expand(page["revs"][-1][1], depth + 1, a, seen + (t,))

        prev = None
        while prev != text:
            prev = text
            text = re.sub(r"\{\{([^{}]*)\}\}", rep, text)
        return text

    def images_of(self, title):
        txt = self.expand(self.current(title)[1], seen=(title,))
        return sorted({"File:" + norm_title(m) for m in re.findall(r"\[\[File:([^|\]]+)", txt)})

    def templates_of(self, title):
        out = set()

        def walk(text, depth):
            for m in re.findall(r"\{\{([^{}|]*)", text):
                name = m.strip()
                if name.startswith(":") or not name:
                    continue
                t = "Template:" + norm_title(name)
                if t in self.pages and t not in out and depth < 8:
                    out.add(t)
                    walk(self.current(t)[1], depth + 1)

        walk(self.current(title)[1], 0)
        return sorted(out)

    def contributors_of(self, title):
        """what the wiki reports: (sorted non-bot names, anon count) - the statement's ground truth"""
        p = self.pages[title]
        names = sorted({n for n in p["contributors"] if not re.search(r"bot$", n, re.I)})
        return names, p["anon"]

    # ---- API ---------------------------------------------------------------------------------
    def handle(self, q):
        a = q.get("action")
        if a == "query" and q.get("meta") == "siteinfo":
            return {"query": {k: self.si[k] for k in q.get("siprop", "general").split("|") if k in self.si}}
        if a == "expandtemplates":
            return {"expandtemplates": {"wikitext": self.expand(q.get("text", ""))}}
        if a == "parse":
            if "page" in q:
                t, _ = self.resolve(norm_title(q["page"]))
                if t is None or t not in self.pages:
                    return {"error": {"code": "missingtitle", "info": "The page you specified doesn't exist."}}
                return {"parse": {"title": t, "text": {"*": "<p>%s</p>" % t}}}
            rid = int(q.get("oldid", 0))
            for t, p in self.pages.items():
                if any(r[0] == rid for r in p["revs"]):
                    return {"parse": {"title": t, "text": {"*": "<p>%s</p>" % t}}}
            return {"error": {"code": "nosuchrevid", "info": "There is no revision with ID %d." % rid}}
        if a == "query":
            return self.query(q)
        return {"error": {"code": "unknown_action", "info": "unrecognized action %r" % a}}

    def query(self, q):
        props = [p for p in q.get("prop", "").split("|") if p]
        sel = []          # (title, pinned revision or None)
        redirects = []
        normalized = []
        for raw in [t for t in q.get("titles", "").split("|") if t]:
            t = norm_title(raw)
            if t != raw:
                normalized.append({"from": raw, "to": t})
            if q.get("redirects"):
                final, hops = self.resolve(t)
                redirects.extend({"from": f, "to": to} for f, to in hops)
                if final is None:
                    continue
                t = final
            if (t, None) not in sel:
                sel.append((t, None))
        for r in [int(x) for x in q.get("revids", "").split("|") if x]:
            for t, p in self.pages.items():
                for rv in p["revs"]:
                    if rv[0] == r and (t, rv) not in sel:
                        sel.append((t, rv))
        pages = {}
        cont = {}
        budget = {}
        listed = set()
        # list properties are delivered in page-id order (continuation tokens rely on it)
        sel.sort(key=lambda tr: self.pages[tr[0]]["pageid"] if tr[0] in self.pages else 10 ** 9)
        for title, rv in sel:
            p = self.pages.get(title)
            isfile = title.startswith("File:")
            if p is None and not (isfile and title in self.files):
                pages["-%d" % (len(pages) + 1)] = {"title": title, "ns": 6 if isfile else 0, "missing": ""}
                continue
            if p is None:
                pid = "-%d" % (len(pages) + 1)
                e = pages.setdefault(pid, {"title": title, "ns": 6, "missing": "", "imagerepository": self.files[title]["repo"]})
            else:
                pid = str(p["pageid"])
                e = pages.setdefault(pid, {"title": title, "ns": p["ns"], "pageid": p["pageid"]})
            if "revisions" in props and p is not None:
                rvprop = q.get("rvprop", "ids").split("|")
                revs = [rv] if rv else [p["revs"][-1]]
                out = []
                for r in revs:
                    d = {}
                    if "ids" in rvprop:
                        d["revid"] = r[0]
                    if "content" in rvprop:
                        d["*"] = r[1]
                    if "user" in rvprop:
                        d["user"] = r[2]
                    if "timestamp" in rvprop:
                        d["timestamp"] = "2020-01-01T00:00:00Z"
                    out.append(d)
                e.setdefault("revisions", [])
                e["revisions"] = out
            if p is not None and pid not in listed:
                listed.add(pid)         # one page, however many of its revisions were asked for
                self._listprop(q, props, "images", "im", e, pid, [{"ns": 6, "title": i} for i in self.images_of(title)], cont, budget)
                self._listprop(q, props, "templates", "tl", e, pid, [{"ns": 10, "title": i} for i in self.templates_of(title)], cont, budget)
                self._listprop(q, props, "categories", "cl", e, pid, [], cont, budget)
                if "contributors" in props:
                    names = [{"userid": 10 + i, "name": n} for i, n in enumerate(sorted(set(p["contributors"])))]
                    first = "pccontinue" not in q or not q["pccontinue"].startswith(pid + "|")
                    self._listprop(q, props, "contributors", "pc", e, pid, names, cont, budget)
                    if "pccontinue" not in q:
                        e["anoncontributors"] = p["anon"]
            if "imageinfo" in props and isfile and title in self.files:
                f = self.files[title]
                name = title[5:].replace(" ", "_")
                host = self.host if f["repo"] == "local" else self.shared.host
                e["imagerepository"] = f["repo"]
                e["imageinfo"] = [{"url": "http://%s/images/%s" % (host, name),
                                   "thumburl": "http://%s/images/thumb/%s/%spx-%s" % (host, name, q.get("iiurlwidth", "800"), name),
                                   "descriptionurl": "http://%s/wiki/%s" % (host, "File:" + name),
                                   "user": "Uploader", "size": len(f["bytes"]), "sha1": hashlib.sha1(f["bytes"]).hexdigest()}]
            if "info" in props and p is not None:
                e["fullurl"] = "http://%s/wiki/%s" % (self.host, title.replace(" ", "_"))
        res = {"pages": pages}
        if redirects:
            res["redirects"] = redirects
        if normalized:
            res["normalized"] = normalized
        out = {"query": res}
        if cont:
            out["query-continue"] = cont
        return out

    def _listprop(self, q, props, prop, prefix, entry, pid, items, cont, budget):
        """list-valued property with a per-request limit and query-continue across pages"""
        if prop not in props:
            return
        limit = int(q.get(prefix + "limit", 500))
        # a server answers with "no more than" the requested number: its own caps may be lower
        limit = min(limit, getattr(self, "server_cap", 500) or 500)
        key = prefix + "continue"
        start = 0
        if key in q:
            cpid, _, cidx = q[key].partition("|")
            if int(pid) < int(cpid):
                return                      # already delivered in an earlier batch
            if pid == cpid:
                start = int(cidx)
        used = budget.get(prop, 0)
        if prop in cont:
            return                          # limit already reached in this request
        room = limit - used
        chunk = items[start:start + max(room, 0)]
        if chunk:
            entry.setdefault(prop, []).extend(chunk)
        budget[prop] = used + len(chunk)
        if start + len(chunk) < len(items):
            cont[prop] = {key: "%s|%d" % (pid, start + len(chunk))}


def norm_title(t):
    t = re.sub(r"[ _]+", " ", urllib.parse.unquote(t)).strip()
    if t.startswith(":"):
        t = t[1:].strip()
    if ":" in t:
        ns, rest = t.split(":", 1)
        if ns.strip().lower() in ("template", "file", "image", "category", "user", "help", "talk"):
            ns = {"image": "File"}.get(ns.strip().lower(), ns.strip().capitalize())
            rest = rest.strip()
            return ns + ":" + rest[:1].upper() + rest[1:]
    return t[:1].upper() + t[1:]


class Net:
    """the network: hosts -> wikis, request log, seeded latencies"""

    def __init__(self, rnd, max_latency=0.002):
        self.wikis = {}
        self.log = []
        self.rnd = rnd
        self.max_latency = max_latency
        self.downloads = []

    def latency(self):
        import gevent
        gevent.sleep(self.rnd.random() * self.max_latency)

    def api(self, url, method, data):
        parts = urllib.parse.urlsplit(url)
        if method == "POST":
            q = dict(urllib.parse.parse_qsl((data or b"").decode("utf-8"), keep_blank_values=True))
        else:
            q = dict(urllib.parse.parse_qsl(parts.query, keep_blank_values=True))
        wiki = self.wikis.get(parts.netloc)
        self.log.append((parts.netloc, q))
        self.latency()
        if wiki is None or not parts.path.endswith("/w/api.php"):
            import httpx
            raise httpx.RequestError("no such api: %s" % url)
        return json.dumps(wiki.handle(q)).encode("utf-8")

    def file_bytes(self, url):
        parts = urllib.parse.urlsplit(url)
        name = urllib.parse.unquote(parts.path.rsplit("/", 1)[1])
        name = re.sub(r"^\d+px-", "", name)
        title = "File:" + name.replace("_", " ")
        for w in self.wikis.values():
            if title in w.files and (w.files[title]["repo"] == "local" or True):
                self.downloads.append(title)
                return w.files[title]["bytes"]
        return None


def install(net):
    """route the real client to the network `net` (call before make_nuwiki)"""
    from mwlib.network import fetch, sapi

    class SynthApi(sapi.MwApi):
        def _fetch(self, url, method="GET", data=None, **kw):
            return net.api(url, method, data)

    class Resp:
        def __init__(self, data):
            self.data = data

        def raise_for_status(self):
            if self.data is None:
                import httpx
                raise httpx.HTTPStatusError("404", request=None, response=type("R", (), {"status_code": 404})())

        def iter_bytes(self, chunk_size=16384):
            for i in range(0, len(self.data), 7):
                yield self.data[i:i + 7]

        def __enter__(self):
            return self

        def __exit__(self, *a):
            return False

    class DlClient:
        def stream(self, method, url):
            # the image server has its own pace: a download may still be running when the last API answer is in
            import gevent
            dl = getattr(net, "download_latency", None)
            if dl:
                gevent.sleep(net.rnd.random() * dl)
            else:
                net.latency()
            return Resp(net.file_bytes(url))

    sapi.MwApi = SynthApi
    if hasattr(fetch, "mwapi"):
        fetch.mwapi.MwApi = SynthApi
    fetch._get_download_client = lambda url: DlClient()
    return SynthApi
