"""Offline checker for recorded queue-server histories (C16, C17, C18).

The model is the property statements made executable: a sequential job table with a set of
queued ids, a holder per handed-out job, blocked pullers and waiting clients.  It is stepped with
the events of one scheduling quantum in the order the server dispatched them; where the
implementation has a legitimate choice (which eligible blocked worker receives a job) the model
follows what the responses show and only checks that the choice was an allowed one.

Findings are (prop, key, what) with `key` a mechanism signature (never ids, seeds or case hashes).
"""

DEFAULT_TIMEOUT = 120.0
DEFAULT_TTL = 3600


class J:
    __slots__ = ("jobid", "channel", "priority", "serial", "done", "error", "result", "timeout_at",
                 "ttl", "deadline", "info", "handouts", "placed_with_waiter", "place_quantum")

    def __init__(self, jobid, channel, priority, serial, timeout_at, ttl):
        self.jobid, self.channel, self.priority, self.serial = jobid, channel, priority, serial
        self.done, self.error, self.result = False, None, None
        self.timeout_at, self.ttl, self.deadline = timeout_at, ttl, None
        self.info = {}
        self.handouts = 0
        self.placed_with_waiter = None
        self.place_quantum = None


class Checker:
    def __init__(self):
        self.jobs = {}
        self.queued = set()
        self.maybe = set()         # placed while an eligible worker was blocked, no response seen (yet):
                                   # queued, or in limbo at a dying waiter and re-queued later in the quantum
        self.holder = {}
        self.held_order = {}       # conn -> [jobid] in pull order
        self.blocked = {}          # conn -> (channels, call_ev)
        self.waiting = []          # (conn, [ids], call_ev)
        self.count = 0
        self.now = None
        self.stats = {}            # channel -> {success,error,timeout,killed}
        self.finished_total = {}   # channel -> n finished
        self.findings = []
        self.quantum = 0
        self.returned_ever = set()
        self.ever_ids = set()
        self.q_places = []         # (jobid, eligible blocked conns, recipient) in this quantum
        self.q_disc = set()
        self.dead = set()
        self.obs = {"handoffs": 0, "double_place_one_waiter": 0, "disconnect_while_blocked": 0,
                    "disconnect_holding": 0, "nonblocking_pulls": 0, "blocking_pulls": 0,
                    "timeouts": 0, "kills": 0, "finishes": 0, "readds_existing": 0,
                    "readds_after_kill": 0, "waits_released": 0, "restarts": 0, "dropped": 0,
                    "priority_decisions": 0, "finality_probes": 0, "stats_probes": 0,
                    "bypassed_waiter": 0, "choice_points": 0}

    # ------------------------------------------------------------------------------
    def flag(self, prop, key, what):
        self.findings.append((prop, key, what))

    def live(self, jid):
        j = self.jobs.get(jid)
        return j is not None and not j.done

    def _finish(self, j, error=None, result=None, ttl=None):
        if j.done:
            return False
        j.done, j.error, j.result = True, error, result
        if ttl is not None:
            j.ttl = ttl
        self.queued.discard(j.jobid)
        self.maybe.discard(j.jobid)
        h = self.holder.pop(j.jobid, None)
        if h is not None and j.jobid in self.held_order.get(h, []):
            self.held_order[h].remove(j.jobid)
        c = self.stats.setdefault(j.channel, {"error": 0, "timeout": 0, "killed": 0, "success": 0})
        if error is None:
            c["success"] += 1
        elif error in ("timeout", "killed"):
            c[error] += 1
        elif error:
            c["error"] += 1
        self.finished_total[j.channel] = self.finished_total.get(j.channel, 0) + 1
        return True

    # ------------------------------------------------------------------------------
    def feed(self, events):
        """events: the engine's log.  Processes quantum by quantum."""
        quantum = []
        for ev in events:
            t = ev["t"]
            if t == "quiescent":
                self._quantum(quantum, ev)
                quantum = []
            elif t == "restart":
                self._quantum(quantum, None)
                quantum = []
                self._restart(ev)
            else:
                quantum.append(ev)
        if quantum:
            self._quantum(quantum, None)

    def _tick(self, ev):
        self.now = ev["now"]
        for j in list(self.jobs.values()):
            if not j.done and j.timeout_at <= self.now:
                self._finish(j, error="timeout")
                self.obs["timeouts"] += 1
        now = int(self.now)
        for jid, j in list(self.jobs.items()):
            if j.deadline and j.deadline < now:
                del self.jobs[jid]
                self.obs["dropped"] += 1
            if j.done and not j.deadline:
                j.deadline = now + j.ttl

    def _restart(self, ev):
        self.obs["restarts"] += 1
        if ev.get("downtime"):
            # time passed while the server was down; timeouts are acted on at the next tick
            self.obs["restarts_with_downtime"] = self.obs.get("restarts_with_downtime", 0) + 1
            if self.now is not None:
                self.now += ev["downtime"]
        # outcome counters are not part of the saved state and C18 does not promise them
        self.stats = {}
        self.finished_total = {}
        self.blocked.clear()
        self.waiting = []
        for jid in list(self.holder):
            self.holder.pop(jid)
            self.queued.add(jid)
        self.queued |= self.maybe
        self.maybe.clear()
        self.held_order.clear()
        self.dead.clear()

    # ------------------------------------------------------------------------------
    def _quantum(self, evs, qev):
        if not evs:
            return
        self.quantum += 1
        self.q_places = []
        self.q_disc = set()
        returned = {}      # id(call_ev) -> call_ev for calls answered in this quantum
        for ev in evs:
            if ev["t"] == "return":
                returned[id(ev["call"])] = ev["call"]
            elif ev["t"] == "disconnect":
                self.q_disc.add(ev["conn"])
        self.returned = returned
        self.returned_ever.update(returned)
        self.explained = set()
        calls = {}  # conn -> list of call evs issued, FIFO, to pair with dispatches
        for ev in evs:
            if ev["t"] == "call":
                if self.now is None:
                    self.now = ev["clock"]
                calls.setdefault(ev["conn"], []).append(ev)
        for ev in evs:
            t = ev["t"]
            if t == "dispatch":
                lst = calls.get(ev["conn"])
                if not lst:
                    self.flag("ENGINE", "dispatch-without-call", "dispatch on %s without call" % ev["conn"])
                    continue
                call = lst.pop(0)
                getattr(self, "_op_" + call["method"])(ev["conn"], call)
            elif t == "shutdown":
                self._shutdown(ev["conn"])
            elif t == "tick":
                self._tick(ev)
            elif t == "advance":
                if self.now is not None:
                    self.now += ev["dt"]
            elif t == "stray-response":
                self.flag("C16", "stray-response", "connection %s got a response without a request" % ev["conn"])
        # a connection that got EOF is gone by the quiescent point whether or not the server ran its
        # shutdown hook: what it held must be available again
        for conn in sorted(self.q_disc):
            if conn not in self.dead:
                self.obs["shutdown_hook_not_observed"] = self.obs.get("shutdown_hook_not_observed", 0) + 1
                self._shutdown(conn)
        # blocked pulls that returned in this quantum must have been explained by a placement
        for cid, call in returned.items():
            if cid in self.explained:
                continue
            self._unexplained(call)
        self.queued |= {i for i in self.maybe if self.live(i)}
        self.maybe.clear()
        # waiting clients
        self._release_waits()
        if qev is not None and not qev.get("converged", True):
            self.flag("ENGINE", "not-quiescent", "event loop did not become quiescent")

    def _ret(self, call):
        """response of `call` if it arrived in the current quantum"""
        c = self.returned.get(id(call))
        return None if c is None else c["ret"]

    # -- placement of a job that becomes available (add or re-queue at disconnect) ------
    def _place(self, j):
        elig = [w for w, (chs, _) in self.blocked.items() if not chs or j.channel in chs]
        recipient = None
        # earliest written response first: the same job may be handed out again in this quantum
        # after its first recipient disconnected
        for w in sorted(elig, key=lambda w: self.blocked[w][1].get("wseq") or 1 << 60):
            chs, call = self.blocked[w]
            r = self._ret(call)
            if r is not None and id(call) not in self.explained and isinstance(r.get("result"), dict) \
                    and r["result"].get("jobid") == j.jobid and r["result"].get("serial", j.serial) == j.serial:
                recipient = w
                self.explained.add(id(call))
                # (the snapshot's done flag is not checked here: the hand-off is the linearisation
                # point of a blocked pull and a kill may legitimately land before the worker wakes)
                self._check_pull_snapshot(w, chs, r["result"], j, blocked=True)
                break
        if len(elig) > 1:
            self.obs["choice_points"] += 1
        self.q_places.append((j.jobid, tuple(elig), recipient))
        j.place_quantum = self.quantum
        if recipient is not None:
            del self.blocked[recipient]
            self._hand(j, recipient)
            self.obs["handoffs"] += 1
            j.placed_with_waiter = None
        else:
            j.placed_with_waiter = tuple(elig) if elig else None
            if elig:
                self.maybe.add(j.jobid)
                self.obs["bypassed_waiter"] += 1
            else:
                self.queued.add(j.jobid)
        # two placements in one quantum competing for one blocked worker
        for w in elig:
            n = sum(1 for (_, e, _r) in self.q_places if w in e)
            if n >= 2:
                self.obs["double_place_one_waiter"] += 1
                break

    def _hand(self, j, conn):
        self.queued.discard(j.jobid)
        self.maybe.discard(j.jobid)
        self.holder[j.jobid] = conn
        self.held_order.setdefault(conn, []).append(j.jobid)
        j.handouts += 1

    def _check_pull_snapshot(self, conn, chs, snap, j, blocked=False):
        if chs and snap.get("channel") not in chs:
            self.flag("C17", "pull:channel-not-requested",
                      "worker pulling %r received a job of channel %r" % (chs, snap.get("channel")))
        if snap.get("done") and not blocked:
            self.flag("C17", "pull:done-snapshot", "pulled job snapshot has done=True")

    # -- operations -------------------------------------------------------------------
    def _op_qadd(self, conn, call):
        a = call["args"]
        jid = a.get("jobid")
        auto = jid is None
        if auto:
            jid = self.count + 1      # server-assigned id = its serial; never an id in use
            if jid in self.jobs or jid in self.ever_ids:
                self.flag("C18" if self.obs["restarts"] else "C17", "autoid:reused",
                          "a server-assigned job id collides with an id already used")
        self.ever_ids.add(jid)
        ex = self.jobs.get(jid)
        r = self._ret(call)
        if ex is not None and ex.error != "killed":
            self.obs["readds_existing"] += 1
            created = None
        else:
            if ex is not None:
                self.obs["readds_after_kill"] += 1
                # the killed predecessor is gone for good
                self.queued.discard(jid)
                self.holder.pop(jid, None)
            self.count += 1
            t = a.get("timeout")
            created = J(jid, a["channel"], a.get("priority", 0), self.count,
                        self.now + (DEFAULT_TIMEOUT if t is None else t),
                        DEFAULT_TTL if a.get("ttl") is None else a["ttl"])
            self.jobs[jid] = created
            self._place(created)
        if a.get("wait"):
            self.waiting.append((conn, [self.jobs[jid]], call, "qadd"))
            return
        self.explained.add(id(call))
        if r is None:
            self.flag("C16", "add:no-response", "qadd got no response in its quantum")
        elif r.get("result") != jid:
            if auto:
                self.flag("C18" if self.obs["restarts"] else "C17", "autoid:unexpected",
                          "server assigned id %r, expected the next serial %r" % (r.get("result"), jid))
                return
            if created is None:
                self.flag("C17", "readd:not-same-id", "re-adding an existing id returned %r" % (r,))
            else:
                self.flag("C16", "add:wrong-id", "qadd returned %r" % (r,))

    def _op_qpull(self, conn, call):
        chs = call["args"].get("channels") or []
        cands = [self.jobs[i] for i in self.queued
                 if self.live(i) and (not chs or self.jobs[i].channel in chs)]
        r = self._ret(call)
        maybes = [self.jobs[i] for i in self.maybe
                  if self.live(i) and (not chs or self.jobs[i].channel in chs)]
        if maybes and r is not None and isinstance(r.get("result"), dict):
            got = r["result"].get("jobid")
            gj = self.jobs.get(got)
            if gj in maybes and r["result"].get("serial", gj.serial) == gj.serial and all((gj.priority, gj.serial) <= (c.priority, c.serial) for c in cands):
                # the uncertain job was in the queue after all and is an admissible answer
                self.explained.add(id(call))
                self.obs["nonblocking_pulls"] += 1
                self._check_pull_snapshot(conn, chs, r["result"], gj)
                self._hand(gj, conn)
                return
        if not cands:
            self.blocked[conn] = (chs, call)
            self.obs["blocking_pulls"] += 1
            return   # a response in this quantum must be explained by a later placement
        self.obs["nonblocking_pulls"] += 1
        self.explained.add(id(call))
        exp = min(cands, key=lambda j: (j.priority, j.serial))
        if len(cands) > 1:
            self.obs["priority_decisions"] += 1
        if r is None:
            # lost: the model holds a pullable job but the puller got nothing
            j = exp
            self.flag("C16", "lost:" + self._loss_shape(j),
                      "a puller of %r blocked although job %r (accepted, unfinished, held by nobody) "
                      "should be queued" % (chs, j.jobid))
            # keep the model in sync: the job is gone
            self.queued.discard(j.jobid)
            self.blocked[conn] = (chs, call)
            return
        snap = r.get("result")
        if not isinstance(snap, dict):
            self.flag("C16", "pull:error-response", "qpull answered %r" % (r,))
            return
        got = snap.get("jobid")
        self._check_pull_snapshot(conn, chs, snap, None)
        if got == exp.jobid:
            self._hand(exp, conn)
            return
        gj = self.jobs.get(got)
        if gj is not None and got in self.queued and not gj.done:
            self.flag("C17", "pull:order",
                      "pull of %r returned job (prio %s, serial %s) while (prio %s, serial %s) was queued"
                      % (chs, gj.priority, gj.serial, exp.priority, exp.serial))
            self._hand(gj, conn)
        else:
            self._bad_handout(got, conn)

    def _bad_handout(self, got, conn):
        gj = self.jobs.get(got)
        if gj is None:
            self.flag("C16", "pull:unknown-job", "pull returned a job id that is not in the queue's table")
        elif gj.done:
            self.flag("C17", "pull:finished-job-handed-out",
                      "a worker received job that was already finished (error=%r)" % (gj.error,))
        elif got in self.holder:
            self.flag("C16", "dup:handed-to-second-worker",
                      "job handed to a second worker while its first holder is still connected")
        else:
            self.flag("C16", "pull:unexplained", "pull returned job %r the model cannot account for" % got)

    def _unexplained(self, call):
        m = call["method"]
        r = call["ret"]
        if m == "qpull":
            snap = r.get("result") if isinstance(r, dict) else None
            if isinstance(snap, dict):
                got = snap.get("jobid")
                gj = self.jobs.get(got)
                conn = call["conn"]
                self.blocked.pop(conn, None)
                if gj is not None and not gj.done and (got in self.queued or got in self.maybe):
                    # a blocked worker was served from the queue later than the model placed it:
                    # legitimate (e.g. placement resolved late); follow it
                    chs = call["args"].get("channels") or []
                    self._check_pull_snapshot(conn, chs, snap, gj, blocked=True)
                    self._hand(gj, conn)
                else:
                    self._bad_handout(got, conn)
            else:
                self.flag("C16", "pull:error-response", "qpull answered %r" % (r,))
        elif m in ("qwait",) or (m == "qadd" and call["args"].get("wait")):
            pass  # handled by _release_waits
        else:
            self.flag("ENGINE", "unexplained-response", "response to %s not consumed by the model" % m)

    def _loss_shape(self, j):
        """discriminator for a lost job: how it was placed"""
        if j.handouts and j.placed_with_waiter is None and j.place_quantum is not None:
            pass
        e = j.placed_with_waiter
        if e:
            return "placed-while-eligible-worker-blocked"
        if j.handouts:
            return "after-requeue"
        return "from-queue"

    def _op_qfinish(self, conn, call):
        a = call["args"]
        r = self._ret(call)
        self.explained.add(id(call))
        j = self.jobs.get(a["jobid"])
        if j is None:
            if r is None or "error" not in r:
                self.flag("C17", "finish:unknown-job-accepted", "finishing an unknown job answered %r" % (r,))
            return
        err = a.get("error")
        if self._finish(j, error=err, result=a.get("result"),
                        ttl=(min(10, j.ttl) if err else j.ttl)):
            self.obs["finishes"] += 1
        if r is None or "error" in r:
            self.flag("C17", "finish:rejected", "qfinish of a known job answered %r" % (r,))

    def _op_qkill(self, conn, call):
        self.explained.add(id(call))
        for jid in call["args"]["jobids"]:
            j = self.jobs.get(jid)
            if j is not None and self._finish(j, error="killed"):
                self.obs["kills"] += 1

    def _op_qsetinfo(self, conn, call):
        self.explained.add(id(call))
        j = self.jobs.get(call["args"]["jobid"])
        if j is not None:
            j.info.update(call["args"]["info"])

    def _op_qinfo(self, conn, call):
        self.explained.add(id(call))
        r = self._ret(call)
        jid = call["args"]["jobid"]
        j = self.jobs.get(jid)
        self.obs["finality_probes"] += 1
        if r is None or "error" in r:
            self.flag("C17", "qinfo:failed", "qinfo answered %r" % (r,))
            return
        snap = r.get("result")
        if j is None:
            if snap is not None:
                self.flag("C17", "qinfo:ghost", "qinfo shows a job the model dropped/never had")
            return
        if snap is None:
            self.flag("C16", "qinfo:missing", "accepted job is unknown to qinfo (done=%s)" % j.done)
            return
        if bool(snap.get("done")) != j.done:
            if j.done:
                self.flag("C17", "finality:finished-job-shown-unfinished",
                          "job finished with error=%r but snapshot says done=%r" % (j.error, snap.get("done")))
            else:
                self.flag("C17", "finality:unfinished-job-shown-done",
                          "job not finished by any finish/kill/timeout but snapshot says done "
                          "(error=%r)" % (snap.get("error"),))
            return
        if j.done and (snap.get("error") != j.error or snap.get("result") != j.result):
            self.flag("C17", "finality:outcome-changed",
                      "first outcome was (result=%r, error=%r) but snapshot shows (result=%r, error=%r)"
                      % (j.result, j.error, snap.get("result"), snap.get("error")))
        if snap.get("info") != j.info:
            self.flag("C17", "qinfo:info-mismatch", "info %r != expected %r" % (snap.get("info"), j.info))

    def _op_qwait(self, conn, call):
        ids = call["args"]["jobids"]
        if any(i not in self.jobs for i in ids):
            self.explained.add(id(call))
            r = self._ret(call)
            if r is None or "error" not in r:
                self.flag("C17", "wait:unknown-job", "waiting for an unknown job answered %r" % (r,))
            return
        self.waiting.append((conn, [self.jobs[i] for i in ids], call, "qwait"))

    def _op_getstats(self, conn, call):
        self.explained.add(id(call))
        r = self._ret(call)
        self.obs["stats_probes"] += 1
        if r is None or "error" in r:
            self.flag("C17", "stats:failed", "getstats answered %r" % (r,))
            return
        c2s = r["result"].get("channel2stat", {})
        for ch in set(c2s) | set(self.stats):
            got = c2s.get(ch, {"error": 0, "timeout": 0, "killed": 0, "success": 0})
            tot = sum(got.values())
            if tot != self.finished_total.get(ch, 0):
                self.flag("C17", "stats:sum-mismatch",
                          "channel counters sum to %d but %d jobs of the channel finished"
                          % (tot, self.finished_total.get(ch, 0)))
            elif got != self.stats.get(ch, got):
                self.flag("C17", "stats:kind-mismatch", "counters %r != expected %r" % (got, self.stats.get(ch)))

    def _release_waits(self):
        still = []
        for conn, ids, call, kind in self.waiting:
            alld = all(j.done for j in ids)   # bound to the job objects waited for
            r = call["ret"] if id(call) in self.returned_ever else None
            if conn in self.dead:
                continue
            if r is None:
                if alld:
                    if id(call) in self.returned or True:
                        self.flag("C17", "wait:not-released",
                                  "client waiting for finished job(s) was not released at the quiescent "
                                  "point after the finish")
                    continue
                still.append((conn, ids, call, kind))
                continue
            # has a response
            if not alld:
                self.flag("C17", "wait:released-early", "wait returned before the job finished")
                continue
            self.obs["waits_released"] += 1
            res = r.get("result") if isinstance(r, dict) else None
            snaps = [res] if kind == "qadd" else res
            if not isinstance(snaps, list) or len(snaps) != len(ids):
                self.flag("C17", "wait:bad-response", "wait answered %r" % (r,))
                continue
            for j, s in zip(ids, snaps):
                if not isinstance(s, dict):
                    continue
                if not s.get("done") or s.get("error") != j.error or s.get("result") != j.result:
                    self.flag("C17", "wait:wrong-outcome",
                              "wait returned (done=%r, result=%r, error=%r), expected (True, %r, %r)"
                              % (s.get("done"), s.get("result"), s.get("error"), j.result, j.error))
        self.waiting = still

    def _shutdown(self, conn):
        self.dead.add(conn)
        if conn in self.blocked:
            self.obs["disconnect_while_blocked"] += 1
            del self.blocked[conn]
        self.waiting = [w for w in self.waiting if w[0] != conn]
        held = list(self.held_order.pop(conn, []))
        if held:
            self.obs["disconnect_holding"] += 1
        for jid in held:
            if self.holder.get(jid) == conn:
                del self.holder[jid]
                j = self.jobs.get(jid)
                if j is not None and not j.done:
                    self._place(j)

    # -- end of history ---------------------------------------------------------------
    def finish(self):
        """after the drain: everything the model still holds queued was not drained"""
        for jid in sorted(self.queued):
            if self.live(jid):
                j = self.jobs[jid]
                self.flag("C16", "lost:" + self._loss_shape(j),
                          "job accepted, unfinished, held by no connected worker, and not returned by a "
                          "draining worker")
        return self.findings
