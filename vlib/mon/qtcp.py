"""Loopback-TCP stress for C16 (O1 only): the real qserve process, real sockets, OS-scheduled client threads.

Producers add jobs with unique ids; workers pull, then finish, or drop their connection while holding
(the job must be handed out again), or pull a second job first.  A lock-protected client-side log gives
the order of pull responses, finishes and drops; the checker decides exactly-once / no-loss from it.
"""
import json
import os
import random
import socket
import subprocess
import sys
import threading
import time


class Client:
    def __init__(self, port, timeout=0.5):
        self.sock = socket.create_connection(("127.0.0.1", port), timeout=5)
        self.sock.settimeout(timeout)
        self.buf = b""

    def send(self, name, **kw):
        self.sock.sendall((json.dumps([name, kw]) + "\n").encode())

    def recv(self, stop=None, maxwait=30.0):
        t0 = time.time()
        while b"\n" not in self.buf:
            try:
                d = self.sock.recv(65536)
            except socket.timeout:
                if (stop is not None and stop.is_set()) or time.time() - t0 > maxwait:
                    return None
                continue
            if not d:
                return None
            self.buf += d
        line, self.buf = self.buf.split(b"\n", 1)
        return json.loads(line)

    def call(self, name, **kw):
        self.send(name, **kw)
        return self.recv()

    def close(self):
        try:
            self.sock.close()
        except OSError:
            pass


def free_port():
    s = socket.socket()
    s.bind(("127.0.0.1", 0))
    p = s.getsockname()[1]
    s.close()
    return p


def stress(seed, nproducers=3, nworkers=6, jobs_each=40, cap=40.0):
    """returns (findings [(key, what)], observations dict)"""
    rnd = random.Random(seed)
    port = free_port()
    env = dict(os.environ)
    srv = subprocess.Popen([sys.executable, "-c", "import logging; logging.disable(logging.CRITICAL)\n"
                            "from qs.qserve import main; main(['-p', '%d', '-i', '127.0.0.1'])" % port],
                           env=env, stdout=subprocess.DEVNULL, stderr=subprocess.DEVNULL)
    try:
        for _ in range(100):
            try:
                socket.create_connection(("127.0.0.1", port), timeout=0.2).close()
                break
            except OSError:
                time.sleep(0.05)
        else:
            return [("tcp:server-did-not-start", "qserve did not listen on %d" % port)], {}
        log = []
        lock = threading.Lock()
        stop = threading.Event()
        all_ids = ["p%d-%d" % (i, k) for i in range(nproducers) for k in range(jobs_each)]
        finished = set()
        connseq = [0]

        def ev(*a):
            with lock:
                log.append(a)

        def producer(i, s):
            r = random.Random(s)
            c = Client(port)
            for k in range(jobs_each):
                jid = "p%d-%d" % (i, k)
                resp = c.call("qadd", channel=r.choice("ab"), jobid=jid, priority=r.choice((0, 1)), timeout=3600)
                ev("added", jid, resp)
                if r.random() < 0.3:
                    time.sleep(r.random() * 0.002)
            c.close()

        def worker(s):
            r = random.Random(s)
            while not stop.is_set():
                with lock:
                    connseq[0] += 1
                    cid = connseq[0]
                try:
                    c = Client(port)
                except OSError:
                    return
                holding = []
                while not stop.is_set():
                    c.send("qpull", channels=r.choice((["a"], ["b"], [], ["a", "b"])))
                    resp = c.recv(stop)
                    if resp is None:
                        break
                    job = resp.get("result")
                    if not isinstance(job, dict):
                        ev("pull-error", cid, resp)
                        continue
                    jid = job["jobid"]
                    ev("pulled", cid, jid, bool(job.get("done")))
                    holding.append(jid)
                    x = r.random()
                    if x < 0.15:
                        for h in holding:
                            ev("dropped", cid, h)
                        c.close()
                        holding = []
                        break               # reconnect as a new connection
                    if x < 0.30 and len(holding) < 2:
                        continue            # pull another one first
                    for h in holding:
                        ev("finish-sent", cid, h)
                        c.send("qfinish", jobid=h, result="r:%s:%d" % (h, cid))
                        if c.recv() is None:
                            break
                        with lock:
                            finished.add(h)
                    holding = []
                for h in holding:
                    ev("dropped", cid, h)
                c.close()

        threads = [threading.Thread(target=producer, args=(i, rnd.getrandbits(32))) for i in range(nproducers)]
        threads += [threading.Thread(target=worker, args=(rnd.getrandbits(32),)) for _ in range(nworkers)]
        for t in threads:
            t.daemon = True
            t.start()
        t0 = time.time()
        while time.time() - t0 < cap:
            with lock:
                if len(finished) == len(all_ids):
                    break
            time.sleep(0.05)
        stop.set()
        for t in threads:
            t.join(5)
        # final state from the server
        ctl = Client(port, timeout=5)
        findings = []
        obs = {"tcp_jobs": len(all_ids), "tcp_pulls": 0, "tcp_drops": 0, "tcp_rehandouts": 0, "tcp_connections": connseq[0]}
        holder = {}      # jobid -> connection currently holding it (client view)
        pulls = {}
        for e in log:
            if e[0] == "pulled":
                _, cid, jid, done = e
                obs["tcp_pulls"] += 1
                pulls[jid] = pulls.get(jid, 0) + 1
                if done:
                    findings.append(("tcp:finished-job-handed-out", "job %s arrived at a worker already done" % jid))
                if jid in holder:
                    findings.append(("tcp:dup:handed-to-second-worker",
                                     "a job was handed to a second connection while the first still held it (no drop, no finish in between)"))
                elif pulls[jid] > 1:
                    obs["tcp_rehandouts"] += 1
                holder[jid] = cid
                if jid in finished and False:
                    pass
            elif e[0] == "dropped":
                _, cid, jid = e
                obs["tcp_drops"] += 1
                if holder.get(jid) == cid:
                    del holder[jid]
            elif e[0] == "finish-sent":
                _, cid, jid = e
                if holder.get(jid) == cid:
                    del holder[jid]
                    holder["done:" + jid] = cid
            elif e[0] == "pull-error":
                findings.append(("tcp:pull-error-response", "qpull answered %r" % (e[2],)))
        # every client connection is closed now: whatever is unfinished must be pullable again.
        # Decided by a draining worker, not by timing.
        time.sleep(0.3)
        drain = Client(port, timeout=3.0)
        drained = set()
        while True:
            drain.send("qpull", channels=[])
            resp = drain.recv(maxwait=3.0)
            if resp is None:
                break
            job = resp.get("result")
            if isinstance(job, dict):
                if job["jobid"] in drained:
                    findings.append(("tcp:dup:drained-twice", "the draining worker received one job twice"))
                    break
                drained.add(job["jobid"])
        obs["tcp_drained_at_end"] = len(drained)
        lost = 0
        for jid in all_ids:
            info = ctl.call("qinfo", jobid=jid)
            snap = (info or {}).get("result")
            if not snap:
                findings.append(("tcp:accepted-job-unknown", "an accepted job is unknown to the server at the end"))
                continue
            if not snap.get("done") and jid not in drained:
                lost += 1
            if snap.get("done") and jid in drained:
                findings.append(("tcp:finished-job-handed-out", "the draining worker received a finished job"))
        if lost:
            findings.append(("tcp:lost", "%d accepted, unfinished jobs are held by no connection and were not returned to a draining worker" % lost))
        drain.close()
        ctl.close()
        return findings, obs
    finally:
        srv.kill()
        srv.wait()
