"""Observer: (word, chain) list of an advanced tree, in document order, using the same abstract
labels as vlib/gen/grammar.denotation.  Grouping nodes the markup does not denote (Paragraph, Node,
Article, Div, ...) are skipped."""
import re

WORD = re.compile(r"[A-Za-z0-9]+")
STYLE = {"Strong": "b", "Emphasized": "i", "Underline": "u", "Strike": "s", "Sup": "sup", "Sub": "sub",
         "Small": "small", "Big": "big", "Overline": "overline", "Cite": "cite", "Code": "code", "Teletyped": "tt",
         "Var": "var", "Deleted": "del", "Inserted": "ins"}
LINKS = ("ArticleLink", "NamespaceLink", "CategoryLink", "SpecialLink", "InterwikiLink", "LangLink", "Link")


def label(node, parent):
    n = type(node).__name__
    if n == "Section":
        return ("section", node.level)
    if parent is not None and type(parent).__name__ == "Section" and parent.children and parent.children[0] is node:
        return ("heading",)
    if n == "ItemList":
        return ("list", "ol" if node.numbered else "ul")
    if n == "Item":
        return ("item",)
    if n == "DefinitionTerm":
        return ("dterm",)
    if n == "DefinitionDescription":
        return ("ddesc",)
    if n == "Table":
        return ("table",)
    if n == "Caption":
        return ("caption",)
    if n == "Row":
        return ("row",)
    if n == "Cell":
        return ("cell", bool(getattr(node, "is_header", False)))
    if n in STYLE:
        return ("style", STYLE[n])
    if n in LINKS:
        return ("link", getattr(node, "full_target", None) or node.target)
    if n in ("NamedURL", "URL"):
        return ("extlink", node.caption)
    if n == "Reference":
        return ("ref",)
    if n == "PreFormatted":
        return ("pre",)
    if n in ("Paragraph", "Node", "Article", "Text", "DefinitionList", "Div", "Span", "Center", "Blockquote",
             "Indented", "Font"):
        return None
    return ("other", n)


def observe(root):
    out = []
    stack = [(root, None, ())]
    # iterative pre-order, children in order
    while stack:
        node, parent, chain = stack.pop()
        n = type(node).__name__
        lab = label(node, parent)
        c = chain + (lab,) if lab is not None else chain
        if n == "Text":
            for w in WORD.findall(node.caption or ""):
                out.append((w, chain))
            continue
        if n == "URL" and not node.children:
            out.append((node.caption, c))
            continue
        if n in LINKS and not node.children:
            tgt = (node.target or "").replace("_", " ")
            for w in WORD.findall(tgt.split(":")[-1]):
                out.append((w.lower(), c))
            continue
        for ch in reversed(node.children):
            stack.append((ch, node, c))
    return out
