"""Schedules for the queue engine: executor, enabled-op computation, exhaustive DFS by prefix
replay, random generator.

op encoding (JSON lists):
  ["add", channel, prio, wait]        fresh job id j<k>, sent by the lowest idle client
  ["readd", jobid]                    qadd under an existing id (same channel/prio)
  ["pull", worker, [channels]]
  ["run"]
  ["fin", jobid]                      qfinish(result) by the connection holding the job
  ["finx", jobid]                     qfinish(error="boom") by an idle client
  ["kill", jobid]                     qkill by an idle client
  ["tick", dt]
  ["disc", worker]
  ["wait", jobid]                     qwait by an idle client
  ["setinfo", jobid, n]
  ["restart"]
"""
import random

from .qengine import Engine, RestartFailed
from .qmodel import Checker

WORKERS = ("w1", "w2", "w3")
CLIENTS = ("c1", "c2", "c3")
PROBE = "probe"
CHANSETS = (["a"], ["b"], [], ["b", "a"])


class Tracker:
    """What the harness knows from the client boundary while executing (for op enabling)."""

    def __init__(self, eng, maxjobs):
        self.eng = eng
        self.maxjobs = maxjobs
        self.created = []           # job ids in creation order
        self.meta = {}              # jobid -> (channel, prio)
        self.used_workers = set()
        self.finished = set()       # ids the harness asked to finish/kill
        self.pending = False        # something sent/ticked since the last run
        self.auto_pending = False

    def idle(self, name):
        c = self.eng.conns.get(name)
        return c is not None and not c.disconnected and not c.open and not c.g.dead

    def idle_client(self):
        for c in CLIENTS:
            if self.idle(c):
                return c
        return None

    def holder_of(self, jid):
        """connection that (by its responses so far) holds jid"""
        for ev in reversed(self.eng.events):
            if ev["t"] == "return" and ev["call"]["method"] == "qpull":
                r = ev["call"]["ret"].get("result")
                if isinstance(r, dict) and r.get("jobid") == jid:
                    return ev["conn"]
            if ev["t"] == "restart":
                return None
        return None


def timeout_for(k):
    return 50 if k % 2 == 1 else None


def apply_op(eng, tr, op):
    """Execute one op. Returns False if it is not enabled in the current state."""
    k = op[0]
    if k == "add":
        if len(tr.created) >= tr.maxjobs:
            return False
        c = tr.idle_client()
        if c is None:
            return False
        n = len(tr.created) + 1
        jid = "j%d" % n
        kw = dict(channel=op[1], priority=op[2], jobid=jid)
        if timeout_for(n) is not None:
            kw["timeout"] = timeout_for(n)
        if op[3]:
            kw["wait"] = True
        eng.send(c, "qadd", **kw)
        tr.created.append(jid)
        tr.meta[jid] = (op[1], op[2])
    elif k == "addauto":
        # server-assigned id (= serial): the id space must not be reused, also across restarts
        if len(tr.created) >= tr.maxjobs:
            return False
        c = tr.idle_client()
        if c is None or tr.auto_pending:
            return False
        jid = eng.db.workq.count + 1   # what a correct server will assign; the model checks it
        eng.send(c, "qadd", channel=op[1], priority=0)
        tr.auto_pending = True
        tr.created.append(jid)
        tr.meta[jid] = (op[1], 0)
    elif k in ("readd", "readdx"):
        if op[1] not in tr.meta:
            return False
        c = tr.idle_client()
        if c is None:
            return False
        ch, pr = tr.meta[op[1]]
        if k == "readdx":
            # the same id named again under the other channel: still the existing job
            ch = "b" if ch == "a" else "a"
        eng.send(c, "qadd", channel=ch, priority=pr, jobid=op[1])
    elif k == "pull":
        if not tr.idle(op[1]):
            return False
        eng.send(op[1], "qpull", channels=op[2])
        tr.used_workers.add(op[1])
    elif k == "run":
        eng.run()
        tr.pending = False
        tr.auto_pending = False
        return True
    elif k == "fin":
        h = tr.holder_of(op[1])
        if h is None or not tr.idle(h) or op[1] in tr.finished:
            return False
        eng.send(h, "qfinish", jobid=op[1], result="r:%s" % op[1])
        tr.finished.add(op[1])
    elif k == "finx":
        c = tr.idle_client()
        if c is None or op[1] not in tr.meta:
            return False
        eng.send(c, "qfinish", jobid=op[1], error="boom")
    elif k == "kill":
        c = tr.idle_client()
        if c is None or op[1] not in tr.meta:
            return False
        eng.send(c, "qkill", jobids=[op[1]])
    elif k == "tick":
        eng.tick(op[1])
    elif k == "disc":
        c = eng.conns.get(op[1])
        if c is None or c.disconnected:
            return False
        eng.disconnect(op[1])
        tr.used_workers.add(op[1])
    elif k == "wait":
        c = tr.idle_client()
        if c is None or op[1] not in tr.meta:
            return False
        eng.send(c, "qwait", jobids=[op[1]])
    elif k == "setinfo":
        c = tr.idle_client()
        if c is None or op[1] not in tr.meta:
            return False
        eng.send(c, "qsetinfo", jobid=op[1], info={"p": op[2]})
    elif k == "advance":
        eng.advance(op[1])
        return True
    elif k == "restart":
        if tr.pending:
            eng.run()
        eng.restart(op[1] if len(op) > 1 else 0)
        tr.pending = False
        tr.auto_pending = False
        return True
    else:
        raise ValueError(op)
    tr.pending = True
    return True


def enabled_ops(eng, tr, alphabet, last_op):
    """All ops enabled after the executed prefix, with symmetry reduction on fresh workers."""
    ops = []
    fresh_done = False
    A = alphabet
    if len(tr.created) < tr.maxjobs and tr.idle_client():
        for ch in ("a", "b"):
            for pr in (0, 1):
                ops.append(["add", ch, pr, False])
        if "addwait" in A:
            ops.append(["add", "a", 0, True])
        if "addauto" in A and not tr.auto_pending:
            ops.append(["addauto", "b"])
    for w in WORKERS:
        c = eng.conns[w]
        if c.disconnected:
            continue
        fresh = w not in tr.used_workers
        if fresh and fresh_done:
            continue
        if fresh:
            fresh_done = True
        if tr.idle(w):
            for cs in CHANSETS:
                ops.append(["pull", w, cs])
        if not fresh or c.open:
            ops.append(["disc", w])
    if tr.pending and (last_op is None or last_op[0] != "run"):
        ops.append(["run"])
    for jid in tr.created:
        h = tr.holder_of(jid)
        if h is not None and tr.idle(h) and jid not in tr.finished:
            ops.append(["fin", jid])
        if tr.idle_client():
            ops.append(["kill", jid])
            if "finx" in A:
                ops.append(["finx", jid])
            if "readd" in A:
                ops.append(["readd", jid])
            if "readdx" in A:
                ops.append(["readdx", jid])
            if "wait" in A:
                ops.append(["wait", jid])
            if "setinfo" in A:
                ops.append(["setinfo", jid, len(eng.events) % 7])
    if tr.created:
        for dt in A.get("ticks", (60, 200)):
            ops.append(["tick", dt])
    if "restart" in A and (last_op is None or last_op[0] != "restart"):
        ops.append(["restart"])
        if tr.created:
            for dt in A.get("downtimes", ()):
                ops.append(["restart", dt])
    return ops


def probe_all(eng, tr):
    """read-only probes through a dedicated connection: qinfo of every created id + getstats"""
    for jid in tr.created:
        eng.send(PROBE, "qinfo", jobid=jid)
        eng.run()
    eng.send(PROBE, "getstats")
    eng.run()


def execute(ops, choices=(), maxjobs=4, probes=False, want_enabled=None, drain=True, lenient=False):
    """Run one history on a fresh engine; returns dict with findings, observations, events."""
    eng = Engine(names=WORKERS + CLIENTS + (PROBE, "drain"))
    eng.rnd.script = list(choices)
    tr = Tracker(eng, maxjobs)
    applied = []
    last = None
    restart_failed = None
    for op in ops:
        try:
            ok = apply_op(eng, tr, op)
        except RestartFailed as e:
            restart_failed = e
            applied.append(op)
            break
        if not ok:
            if lenient:
                continue
            eng.close()
            return {"disabled": op}
        applied.append(op)
        if probes and op[0] in ("run", "restart"):
            probe_all(eng, tr)
        last = op
    if restart_failed is not None:
        want_enabled, drain, probes = None, False, False
    nxt = None
    if want_enabled is not None:
        nxt = enabled_ops(eng, tr, want_enabled, last)
    sig = None
    if want_enabled is not None:
        sig = state_sig(eng, tr)
    eng.run()
    if probes:
        probe_all(eng, tr)
    drained = []
    if drain:
        for _ in range(maxjobs + 2):
            ev = eng.send("drain", "qpull", channels=[])
            eng.run()
            if ev["ret"] is None:
                break
            r = ev["ret"].get("result")
            drained.append(r.get("jobid") if isinstance(r, dict) else None)
        if probes:
            probe_all(eng, tr)
    ck = Checker()
    ck.feed(eng.events)
    findings = ck.finish()
    if restart_failed is not None:
        findings = [("C18", "restart:%s-raises:%s" % (restart_failed.phase, type(restart_failed.exc).__name__),
                     "stopping/starting the server failed: %s" % restart_failed)]
    out = {"ops": applied, "findings": findings, "obs": ck.obs, "events": len(eng.events), "enabled": nxt,
           "choice_sizes": list(eng.rnd.sizes), "drained": drained, "sig": sig,
           "snapshot": eng.snapshot() if findings else None}
    eng.close()
    return out


def state_sig(eng, tr):
    wq = eng.db.workq
    now = eng.clock.now
    return repr((
        sorted((ch, tuple((j.jobid, j.priority, j.done) for j in sorted(q, key=lambda j: (j.priority, j.serial))))
               for ch, q in wq.channel2q.items()),
        sorted((n, tuple(sorted(map(str, h.running_jobs))), bool(eng.conns[n].open), eng.conns[n].disconnected)
               for n, h in eng.handlers.items()),
        tuple(tuple(w[0]) for w in wq._waiters),
        sorted((str(k), v.done, v.error, v.result, v.timeout - now, v.deadline and v.deadline - now, tuple(v.info.items()))
               for k, v in wq.id2job.items()),
        wq.count, tr.pending, tuple(sorted(tr.finished)), tuple(sorted(tr.used_workers)),
        tuple(sorted((ch, tuple(sorted(c.items()))) for ch, c in wq._channel2count.items())),
    ))


# ------------------------------------------------------------------------------------------
def random_history(rnd, alphabet, length, maxjobs, rendezvous_bias=0.5):
    """Random op list; enabledness is resolved at execution (disabled ops are dropped)."""
    ops = []
    njobs = 0
    A = alphabet

    def jid():
        return "j%d" % rnd.randint(1, max(1, njobs))  # (auto ids are ints; reached via DFS enabling)

    shape = rnd.random()
    if "readd" in A and shape < 0.12:
        # re-incarnation shape: a worker still holds a killed job whose id is then used again
        w = rnd.choice(WORKERS)
        ops += [["add", rnd.choice("ab"), rnd.choice((0, 1)), False], ["pull", w, rnd.choice(CHANSETS)], ["run"],
                ["kill", "j1"], ["readd", "j1"]]
        njobs = 1
        if rnd.random() < 0.5:
            ops.append(["run"])
    elif "restart" in A and 0.12 <= shape < 0.24:
        # everything collected: jobs finished, then dropped by the watchdog after their ttl
        w = rnd.choice(WORKERS)
        n = rnd.randint(1, 2)
        for k in range(1, n + 1):
            if "addauto" in A and rnd.random() < 0.6:
                ops.append(["addauto", rnd.choice("ab")])
                j = k
            else:
                ops.append(["add", rnd.choice("ab"), 0, False])
                j = "j%d" % k
            ops += [["run"], ["pull", w, []], ["run"], ["fin", j], ["run"]]
        njobs = n
        if rnd.random() < 0.4:
            ops.append(["restart"])      # a saved state that still has the jobs
        ops += [["tick", 60], ["tick", 4000], ["tick", 4000]]
        if rnd.random() < 0.7:
            ops.append(["restart"])      # a saved state with an empty table but a used id space
            if "addauto" in A and rnd.random() < 0.7:
                ops += [["addauto", rnd.choice("ab")], ["run"]]
                njobs += 1
    elif shape < 0.24 + rendezvous_bias:
        # rendez-vous shapes: blocked pullers first, then a burst of adds in one quantum
        for w in rnd.sample(WORKERS, rnd.randint(1, 3)):
            ops.append(["pull", w, rnd.choice(CHANSETS)])
        ops.append(["run"])
    while len(ops) < length:
        x = rnd.random()
        if x < 0.25 and njobs < maxjobs:
            ops.append(["add", rnd.choice("ab"), rnd.choice((0, 0, 1)), ("addwait" in A and rnd.random() < 0.15)])
            njobs += 1
        elif x < 0.45:
            ops.append(["pull", rnd.choice(WORKERS), rnd.choice(CHANSETS)])
        elif x < 0.62:
            ops.append(["run"])
        elif x < 0.70 and njobs:
            ops.append(["fin", jid()])
        elif x < 0.76 and njobs:
            ops.append(["kill", jid()])
        elif x < 0.82:
            ops.append(["tick", rnd.choice(A.get("ticks", (60, 200)))])
        elif x < 0.90:
            ops.append(["disc", rnd.choice(WORKERS)])
        elif njobs:
            extra = [k for k in ("finx", "readd", "readdx", "wait", "setinfo", "restart", "addauto") if k in A]
            if not extra:
                continue
            k = rnd.choice(extra)
            if k == "setinfo":
                ops.append(["setinfo", jid(), rnd.randint(0, 9)])
            elif k == "restart":
                dts = A.get("downtimes", ())
                ops.append(["restart", rnd.choice(dts)] if dts and rnd.random() < 0.4 else ["restart"])
            elif k == "addauto":
                ops.append(["addauto", rnd.choice("ab")])
                njobs += 1
            else:
                ops.append([k, jid()])
    return ops


