"""Parent side of every check: shard, run children, aggregate, decide, write evidence.

A property module vlib/props/<ID>.py provides

    ID, LEVEL, RULE, ASSUMPTIONS
    plan(tier, seed)            -> list of JSON-able shard descriptors
    run_shard(desc, R)          -> runs in a fresh child; reports through Recorder R
    replay(case)                -> re-executes one recorded case, returns list of
                                   (key, what, detail) still violated
    REQUIRED = {counter: min}   -> monitors that must have observed something (else
                                   the run is inconclusive, never "held")
    optional: SAN = True (children run under ASan/UBSan in thorough tier),
              finish(summary, tier) -> extra coverage keys / extra violations
"""
import hashlib
import importlib
import json
import os
import shutil
import subprocess
import sys
import tempfile
import time
from concurrent.futures import ThreadPoolExecutor

from . import build

VERIF = build.VERIF
KNOWN = os.path.join(VERIF, "known_findings.json")
NPROC = int(os.environ.get("VERIF_JOBS", "16"))


def load_known():
    try:
        with open(KNOWN) as f:
            data = json.load(f)
    except FileNotFoundError:
        return []
    return data.get("findings", [])


def scratch_root():
    base = os.environ.get("VERIF_SCRATCH") or "/var/tmp"
    os.makedirs(base, exist_ok=True)
    return tempfile.mkdtemp(prefix="mwlib-verif-", dir=base)


def _proc_cpu(pid):
    try:
        with open("/proc/%d/stat" % pid) as f:
            parts = f.read().rsplit(")", 1)[1].split()
        return (int(parts[11]) + int(parts[12])) / os.sysconf("SC_CLK_TCK")
    except (OSError, IndexError, ValueError):
        return 0.0


def _crumb_seq(path):
    try:
        with open(path, "rb") as f:
            b = f.read(16)
        return b[8:16] if len(b) == 16 else None
    except OSError:
        return None


def _run_child(prop, desc, idx, sdir, env, timeout, case_cpu=None):
    dfile = os.path.join(sdir, "shard%03d.in.json" % idx)
    ofile = os.path.join(sdir, "shard%03d.out.json" % idx)
    with open(dfile, "w") as f:
        json.dump(desc, f)
    cmd = [build.PYTHON, "-X", "faulthandler", "-m", "vlib.child", prop, dfile, ofile]
    crumb = os.path.join(sdir, "shard%03d.crumb" % idx)
    errf = os.path.join(sdir, "shard%03d.err" % idx)
    env = dict(env, VERIF_CRUMB=crumb)
    t0 = time.time()
    blowup = None
    with open(errf, "wb") as ef:
        p = subprocess.Popen(cmd, env=env, cwd=sdir, stdout=subprocess.DEVNULL, stderr=ef)
        # supervisor: CPU time (not wall time) spent since the child's breadcrumb last changed; a
        # single case burning more than case_cpu seconds of CPU is a blow-up the in-process step
        # clock cannot see (C-level regex backtracking, big-integer arithmetic, ...)
        last_seq, cpu_at = None, 0.0
        while True:
            try:
                p.wait(timeout=0.5)
                break
            except subprocess.TimeoutExpired:
                pass
            if time.time() - t0 > timeout:
                p.kill()
                p.wait()
                break
            if not case_cpu:
                continue
            cpu = _proc_cpu(p.pid)
            seq = _crumb_seq(crumb)
            if seq != last_seq:
                last_seq, cpu_at = seq, cpu
            elif seq is not None and cpu - cpu_at > case_cpu:
                import signal
                try:
                    p.send_signal(signal.SIGUSR1)      # faulthandler dumps the Python stack
                    time.sleep(0.7)
                except OSError:
                    pass
                p.kill()
                p.wait()
                blowup = cpu - cpu_at
                break
    rc = p.returncode
    with open(errf, "rb") as ef:
        err = ef.read().decode(errors="replace")
    if time.time() - t0 > timeout and not blowup:
        rc, err = -999, "watchdog timeout after %ss\n%s" % (timeout, err[-3000:])
    res = None
    if os.path.exists(ofile):
        try:
            with open(ofile) as f:
                res = json.load(f)
        except ValueError:
            res = None
    last = None
    if (res is None or not res.get("complete")) and os.path.exists(crumb):
        with open(crumb, "rb") as f:
            raw = f.read()
        n = int.from_bytes(raw[:8], "little")
        last = raw[16:16 + n].decode("utf-8", "surrogatepass")
    return {"idx": idx, "rc": rc, "err": err[-6000:], "res": res, "wall": time.time() - t0,
            "desc": desc, "last_case": last, "blowup": blowup}


def main(prop, tier="quick", seed=0, replay=None, jobs=None):
    t0 = time.time()
    mod = importlib.import_module("vlib.props." + prop)
    repo = build.repo_root()
    if replay:
        return do_replay(mod, prop, replay)
    san = bool(getattr(mod, "SAN", False)) and tier == "thorough"
    env = build.child_env(repo)
    shards = mod.plan(tier, seed)
    sdir = scratch_root()
    env["VERIF_SCRATCH_DIR"] = sdir
    env["TMPDIR"] = sdir
    timeout = getattr(mod, "TIMEOUT", {}).get(tier, 1500 if tier == "quick" else 6 * 3600)
    results = []
    try:
        envs = []
        for d in shards:
            if d.get("san"):
                envs.append(build.child_env(repo, san=True, extra={
                    "VERIF_SCRATCH_DIR": sdir, "TMPDIR": sdir}))
            else:
                envs.append(env)
        with ThreadPoolExecutor(max_workers=jobs or NPROC) as ex:
            futs = [ex.submit(_run_child, prop, d, i, sdir, envs[i], timeout, getattr(mod, "CASE_CPU", None))
                    for i, d in enumerate(shards)]
            for f in futs:
                results.append(f.result())
        summary = aggregate(results)
        if hasattr(mod, "finish"):
            mod.finish(summary, tier)
        rc = decide(mod, prop, tier, seed, summary, time.time() - t0)
    finally:
        shutil.rmtree(sdir, ignore_errors=True)
    return rc


def aggregate(results):
    S = {"evaluations": 0, "hashes": set(), "nt_extra": 0, "counters": {}, "violations": [],
         "inconclusive": [], "samples": [], "skipped": 0, "shards": len(results),
         "sets": {}, "dead": []}
    for r in results:
        res = r["res"]
        san = sanitizer_report(r["err"])
        if r.get("blowup"):
            frame = _innermost_repo_frame(r["err"])
            S["violations"].append({
                "key": "cpu-blowup@" + frame,
                "what": "a single case consumed %.0f s of CPU time without finishing (stack at kill: %s)" % (
                    r["blowup"], frame),
                "case": {"crumb": r.get("last_case"), "shard": r["desc"]},
                "detail": r["err"][-3000:]})
            S["counters"]["cpu_blowups"] = S["counters"].get("cpu_blowups", 0) + 1
        elif san and (res is None or not res.get("complete")):
            S["violations"].append({
                "key": san[0], "what": san[1],
                "case": {"san": True, "shard": r["desc"], "last_case": r.get("last_case")},
                "detail": r["err"][-4000:]})
            S["counters"]["sanitizer_reports"] = S["counters"].get("sanitizer_reports", 0) + 1
        elif res is None or not res.get("complete"):
            S["dead"].append({"shard": r["idx"], "rc": r["rc"], "err": r["err"][-1500:],
                              "desc": r["desc"]})
        if res is None:
            continue
        S["evaluations"] += res["evaluations"]
        S["skipped"] += res.get("skipped", 0)
        if res.get("hashes") is not None:
            S["hashes"].update(res["hashes"])
        else:
            S["nt_extra"] += res.get("nt_count", 0)
        for k, v in res["counters"].items():
            S["counters"][k] = S["counters"].get(k, 0) + v
        for k, v in res.get("sets", {}).items():
            S["sets"].setdefault(k, set()).update(v)
        S["violations"].extend(res["violations"])
        S["inconclusive"].extend(res["inconclusive"])
        for s in res["samples"]:
            if len(S["samples"]) < 8:
                S["samples"].append(s)
    return S


def _innermost_repo_frame(err):
    """module:function of the innermost frame inside the tree under test in a faulthandler dump
    (faulthandler prints most recent call first)"""
    import re
    src = os.path.join(build.repo_root(), "src") + os.sep
    for m in re.finditer(r'File "([^"]+)", line \d+ in (\S+)', err):
        if m.group(1).startswith(src):
            mod = m.group(1)[len(src):].rsplit(".", 1)[0].replace(os.sep, ".")
            return "%s:%s" % (mod, m.group(2))
    return "?"


def sanitizer_report(err):
    """(key, what) if stderr holds an ASan/UBSan report, else None.  Key = kind + function."""
    import re
    m = re.search(r"SUMMARY: (\w+Sanitizer): (\S+) (\S+?)(?::\d+)*(?: in (\S+))?", err)
    if m:
        fn = m.group(4) or os.path.basename(m.group(3))
        return ("sanitizer:%s:%s" % (m.group(2), fn), m.group(0)[:300])
    m = re.search(r"(\S+?):\d+:\d+: runtime error: ([^\n]*)", err)
    if m:
        kind = re.sub(r"[0-9]+", "N", m.group(2))[:60]
        return ("sanitizer:ubsan:%s:%s" % (os.path.basename(m.group(1)), kind), m.group(0)[:300])
    return None


def _sig(v):
    return hashlib.sha1(json.dumps(v["case"], sort_keys=True, default=str).encode()).hexdigest()[:16]


def decide(mod, prop, tier, seed, S, wall):
    known = [k for k in load_known() if k["property"] == prop]
    open_keys = {k["key"]: k for k in known if k.get("status") == "open"}
    rdir = os.path.join(VERIF, "replays", prop)
    new, hit = {}, {}
    for v in S["violations"]:
        if v["key"] in open_keys:
            hit.setdefault(v["key"], []).append(v)
        else:
            new.setdefault(v["key"], []).append(v)
    lines = []
    for key, vs in sorted(hit.items()):
        lines.append("KNOWN-FINDING: property=%s %s [key=%s, %d witnesses this run]" % (
            prop, open_keys[key]["what"], key, len(vs)))
    # listed-but-not-reproduced findings are still printed (the file, not the run, lists them)
    for key, k in sorted(open_keys.items()):
        if key not in hit:
            lines.append("KNOWN-FINDING: property=%s %s [key=%s, not reproduced by this run]" % (
                prop, k["what"], key))
    nviol = 0
    for key, vs in sorted(new.items()):
        os.makedirs(rdir, exist_ok=True)
        v = min(vs, key=lambda x: len(json.dumps(x["case"], default=str)))
        path = os.path.join(rdir, _sig(v) + ".json")
        with open(path, "w") as f:
            json.dump({"property": prop, "key": key, "what": v["what"], "case": v["case"],
                       "detail": v.get("detail"), "witnesses_this_run": len(vs),
                       "tier": tier, "seed": seed}, f, indent=1, default=str)
        lines.append("VIOLATION property=%s replay=%s  key=%s  %s" % (prop, path, key, v["what"]))
        nviol += 1
    # reach / inconclusive
    inconc = []
    for name, minimum in getattr(mod, "REQUIRED", {}).items():
        need = minimum.get(tier, 1) if isinstance(minimum, dict) else minimum
        if S["counters"].get(name, 0) < need:
            inconc.append("monitor %s observed %d < %d events" % (
                name, S["counters"].get(name, 0), need))
    if S["dead"]:
        inconc.append("%d/%d shards died or timed out (first: rc=%s %s)" % (
            len(S["dead"]), S["shards"], S["dead"][0]["rc"],
            S["dead"][0]["err"][-400:].replace("\n", " | ")))
    ninc = len(S["inconclusive"])
    if S["evaluations"] and ninc > 0.02 * S["evaluations"]:
        inconc.append("%d of %d cases inconclusive (first: %s)" % (
            ninc, S["evaluations"], S["inconclusive"][0]))
    if S["evaluations"] == 0:
        inconc.append("no case was evaluated")
    distinct = len(S["hashes"]) + S["nt_extra"]
    cov = {
        "evaluations": S["evaluations"],
        "distinct_nontrivial": distinct,
        "rule": mod.RULE,
        "samples": S["samples"] or ["<none>"],
        "monitor_events": dict(sorted(S["counters"].items())),
        "skipped_outside_quantifier": S["skipped"],
        "inconclusive_cases": ninc,
        "known_findings_reproduced": {k: len(v) for k, v in hit.items()},
        "new_violation_keys": sorted(new),
        "shards": S["shards"],
    }
    for k, v in S["sets"].items():
        cov["distinct_" + k] = len(v)
        cov[k + "_seen"] = sorted(v)[:200]
    cov.update(S.get("extra_coverage", {}))
    ev = {
        "property_id": prop, "tier": tier, "seed": int(seed), "level": mod.LEVEL,
        "coverage": cov, "assumptions": list(getattr(mod, "ASSUMPTIONS", [])),
        "wall_s": round(wall, 2), "violations": nviol,
        "verdict": "violated" if nviol else ("inconclusive" if inconc else "held-on-observed"),
        "inconclusive_reasons": inconc,
        "repo": build.repo_root(),
    }
    # evidence/ describes runs against /repo itself; a run against another checkout (VERIF_REPO: a scratch
    # worktree carrying a seeded change) leaves its record under scratch/ instead
    evdir = "evidence" if os.path.realpath(build.repo_root()) == "/repo" else os.path.join("scratch", "evidence-other-tree")
    os.makedirs(os.path.join(VERIF, evdir), exist_ok=True)
    with open(os.path.join(VERIF, evdir, prop + ".json"), "w") as f:
        json.dump(ev, f, indent=1, default=str)
    for ln in lines:
        print(ln)
    print("%s tier=%s seed=%s: %d evaluations, %d distinct non-trivial, %d new violation keys, "
          "%d known-finding keys hit, %.1fs" % (prop, tier, seed, S["evaluations"], distinct,
                                                nviol, len(hit), wall))
    brief = {k: v for k, v in sorted(S["counters"].items())}
    print("monitor events:", json.dumps(brief))
    if nviol:
        return 1
    if inconc:
        for r in inconc:
            print("INCONCLUSIVE property=%s reason=%s" % (prop, r))
        return 2
    return 0


def do_replay(mod, prop, path):
    with open(path) as f:
        rec = json.load(f)
    env = build.child_env(build.repo_root(), san=bool(rec["case"].get("san")))
    sdir = scratch_root()
    env["VERIF_SCRATCH_DIR"] = sdir
    env["TMPDIR"] = sdir
    try:
        p = subprocess.run([build.PYTHON, "-m", "vlib.child", prop, "--replay", os.path.abspath(path)],
                           env=env, cwd=sdir, timeout=3600)
        return p.returncode
    finally:
        shutil.rmtree(sdir, ignore_errors=True)
