import argparse
import os
import sys


def main():
    ap = argparse.ArgumentParser()
    ap.add_argument("prop")
    ap.add_argument("--tier", default=os.environ.get("VERIF_TIER") or "quick",
                    choices=["quick", "thorough"])
    ap.add_argument("--seed", type=int, default=None)
    ap.add_argument("--replay")
    ap.add_argument("--jobs", type=int, default=None)
    a = ap.parse_args()
    seed = a.seed
    if seed is None:
        try:
            seed = int(os.environ.get("VERIF_SEED", "0"))
        except ValueError:
            seed = 0
    from . import runner
    return runner.main(a.prop, a.tier, seed, a.replay, a.jobs)


if __name__ == "__main__":
    sys.exit(main())
