"""Child side: run one shard of one property in a fresh interpreter, report via Recorder."""
import faulthandler
import hashlib
import importlib
import json
import os
import sys
import traceback

MAX_HASHES = 400000
MAX_VIOL = 400


def h64(*parts):
    m = hashlib.blake2b(digest_size=8)
    for p in parts:
        if not isinstance(p, bytes):
            p = repr(p).encode("utf-8", "surrogatepass")
        m.update(p)
        m.update(b"\x00")
    return m.hexdigest()


class Recorder:
    def __init__(self):
        self.evaluations = 0
        self.hashes = set()
        self.counters = {}
        self.sets = {}
        self.violations = []
        self.viol_per_key = {}
        self.inconclusive = []
        self.samples = []
        self.skipped = 0

    # one generated case was executed under the monitors
    def case(self, h, nontrivial=True, sample=None):
        self.evaluations += 1
        if nontrivial:
            self.hashes.add(h if isinstance(h, str) else h64(h))
        if sample is not None and len(self.samples) < 3:
            self.samples.append(sample)

    def count(self, name, n=1):
        self.counters[name] = self.counters.get(name, 0) + n

    def seen(self, setname, value):
        self.sets.setdefault(setname, set()).add(value)

    def violation(self, key, what, case, detail=None):
        self.count("violations_raw")
        n = self.viol_per_key.get(key, 0)
        self.viol_per_key[key] = n + 1
        if n < 3 and len(self.violations) < MAX_VIOL:
            self.violations.append({"key": key, "what": what, "case": case, "detail": detail})

    def inconc(self, reason):
        if len(self.inconclusive) < 50:
            self.inconclusive.append(reason)
        self.count("inconclusive_cases")

    def skip(self):
        self.skipped += 1

    # last case about to be executed, readable by the parent if this process dies
    _crumb = None
    _dump_path = None
    _last_dump = 0.0

    def breadcrumb(self, text):
        if self._crumb is None:
            import mmap
            path = os.environ.get("VERIF_CRUMB")
            if not path:
                self._crumb = False
                return
            with open(path, "wb") as f:
                f.truncate(1 << 20)
            self._crumb_f = open(path, "r+b")
            self._crumb = mmap.mmap(self._crumb_f.fileno(), 1 << 20)
        if self._crumb is False:
            return
        b = text.encode("utf-8", "surrogatepass")[: (1 << 20) - 16]
        self._crumb[16:16 + len(b)] = b
        self._crumb[0:8] = len(b).to_bytes(8, "little")
        self._seq = getattr(self, "_seq", 0) + 1
        self._crumb[8:16] = self._seq.to_bytes(8, "little")
        # partial results survive a kill by the supervisor
        if self._dump_path and self._seq % 500 == 0:
            import time
            if time.time() - self._last_dump > 5:
                self._last_dump = time.time()
                self.dump(self._dump_path, False)

    def dump(self, path, complete):
        hashes = sorted(self.hashes)
        out = {
            "complete": complete,
            "evaluations": self.evaluations,
            "hashes": hashes if len(hashes) <= MAX_HASHES else None,
            "nt_count": len(hashes),
            "counters": self.counters,
            "sets": {k: sorted(v)[:5000] for k, v in self.sets.items()},
            "violations": self.violations,
            "inconclusive": self.inconclusive,
            "samples": self.samples,
            "skipped": self.skipped,
        }
        tmp = path + ".tmp"
        with open(tmp, "w") as f:
            json.dump(out, f, default=str)
        os.replace(tmp, path)


def exc_key(e, tb=None):
    """Mechanism signature of an exception: type + innermost frame inside the tree under test."""
    repo_src = os.path.join(os.environ.get("VERIF_REPO", "/repo"), "src") + os.sep
    tb = tb or e.__traceback__
    inner = None
    for fs in traceback.extract_tb(tb):
        fn = fs.filename
        if fn.startswith(repo_src):
            rel = fn[len(repo_src):]
            mod = rel.rsplit(".", 1)[0].replace(os.sep, ".")
            inner = "%s:%s" % (mod, fs.name)
    return "%s@%s" % (type(e).__name__, inner or "?")


def exc_detail(e):
    return "".join(traceback.format_exception(type(e), e, e.__traceback__))[-3000:]


def main(argv):
    prop = argv[1]
    mod = importlib.import_module("vlib.props." + prop)
    if argv[2] == "--replay":
        with open(argv[3]) as f:
            rec = json.load(f)
        res = mod.replay(rec["case"])
        print("replay of %s (recorded key %s)" % (argv[3], rec.get("key")))
        print("input case:", json.dumps(rec["case"], default=str)[:4000])
        if not res:
            print("no violation reproduced")
            return 0
        for key, what, detail in res:
            print("VIOLATED key=%s: %s" % (key, what))
            if detail:
                print(detail)
        return 1
    with open(argv[2]) as f:
        desc = json.load(f)
    R = Recorder()
    R._dump_path = argv[3]
    faulthandler.enable()
    import signal
    faulthandler.register(signal.SIGUSR1, all_threads=True)
    complete = False
    try:
        mod.run_shard(desc, R)
        complete = True
    finally:
        R.dump(argv[3], complete)
    return 0


if __name__ == "__main__":
    import logging
    logging.disable(logging.CRITICAL)
    sys.exit(main(sys.argv))
