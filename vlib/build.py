"""(Re)build the five native modules of pediapress/mwlib from the tree under test.

The in-tree .so files are git-ignored and go stale when .pyx/.cc are edited, so every
check serves the natives from /verif/.build/<hash>/ (hash over the five sources + flags),
built from VERIF_REPO's *current working tree*.  `san=True` builds with clang
ASan+UBSan into .build/<hash>-asan/.
"""
import hashlib
import os
import shutil
import subprocess
import sys
import sysconfig
import tempfile

VERIF = os.path.dirname(os.path.dirname(os.path.abspath(__file__)))
BUILD_ROOT = os.path.join(VERIF, ".build")

NATIVES = {
    "mwlib.parser.token._uscan": "mwlib/parser/token/_uscan.cc",
    "mwlib.parser.templ.node": "mwlib/parser/templ/node.pyx",
    "mwlib.parser.templ.nodes": "mwlib/parser/templ/nodes.pyx",
    "mwlib.parser.templ.evaluate": "mwlib/parser/templ/evaluate.pyx",
    "mwlib.parser.refine._core": "mwlib/parser/refine/_core.pyx",
}
EXT = sysconfig.get_config_var("EXT_SUFFIX") or ".cpython-312-x86_64-linux-gnu.so"
ASAN_RT = "/usr/lib/llvm-14/lib/clang/14.0.6/lib/linux/libclang_rt.asan-x86_64.so"
PYTHON = "/venv/bin/python"
CYTHON = "/venv/bin/cython"


def repo_root():
    return os.environ.get("VERIF_REPO", "/repo")


def _hash(repo, san):
    h = hashlib.sha1()
    h.update(b"v4 san=%d" % int(bool(san)))
    for mod, rel in sorted(NATIVES.items()):
        p = os.path.join(repo, "src", rel)
        with open(p, "rb") as f:
            h.update(mod.encode() + b"\0" + f.read())
    return h.hexdigest()[:16]


def so_path(bdir, mod):
    return os.path.join(bdir, mod + EXT)


def ensure(repo=None, san=False, quiet=True):
    """Return the build directory holding fresh natives for `repo`'s working tree."""
    repo = repo or repo_root()
    tag = _hash(repo, san) + ("-asan" if san else "")
    bdir = os.path.join(BUILD_ROOT, tag)
    if os.path.isdir(bdir) and all(os.path.exists(so_path(bdir, m)) for m in NATIVES):
        return bdir
    os.makedirs(BUILD_ROOT, exist_ok=True)
    tmp = tempfile.mkdtemp(prefix="tmp-" + tag + "-", dir=BUILD_ROOT)
    inc = sysconfig.get_paths()["include"]
    if not os.path.exists(os.path.join(inc, "Python.h")):
        inc = subprocess.check_output(
            [PYTHON, "-c", "import sysconfig;print(sysconfig.get_paths()['include'])"], text=True
        ).strip()
    try:
        jobs = []
        for mod, rel in NATIVES.items():
            src = os.path.join(repo, "src", rel)
            out = so_path(tmp, mod)
            if rel.endswith(".pyx"):
                csrc = os.path.join(tmp, mod + ".c")
                # As the project's own build does it: `make build` (run by setup.py) pre-generates
                # templ/{node,nodes,evaluate}.c with plain `cython -3`, so setup.py's
                # boundscheck/wraparound=False directives only ever reach refine/_core.pyx.
                directives = (["-X", "boundscheck=False", "-X", "wraparound=False"]
                              if rel.endswith("_core.pyx") else [])
                subprocess.run(
                    [CYTHON, "-3"] + directives + [src, "-o", csrc],
                    check=True, stdout=subprocess.PIPE, stderr=subprocess.PIPE,
                )
                src_c, cc = csrc, ("clang" if san else "gcc")
            else:
                src_c, cc = src, ("clang++" if san else "g++")
            cmd = [cc, "-shared", "-fPIC", "-I" + inc, "-w", src_c, "-o", out]
            if san:
                cmd[1:1] = ["-O1", "-g", "-fno-omit-frame-pointer",
                            "-fsanitize=address,undefined", "-fno-sanitize-recover=all",
                            "-shared-libsan"]
            else:
                cmd[1:1] = ["-O2"]
            jobs.append(subprocess.Popen(cmd, stdout=subprocess.PIPE, stderr=subprocess.STDOUT))
        for j in jobs:
            out, _ = j.communicate()
            if j.returncode != 0:
                raise RuntimeError("native build failed: %s" % out.decode(errors="replace")[-2000:])
        try:
            os.rename(tmp, bdir)
        except OSError:
            # lost a race with a concurrent builder: theirs is as good as ours
            shutil.rmtree(tmp, ignore_errors=True)
    finally:
        if os.path.isdir(tmp):
            shutil.rmtree(tmp, ignore_errors=True)
    # prune old builds (keep the 6 newest) so .build never grows without bound
    try:
        ds = sorted(
            (d for d in os.listdir(BUILD_ROOT) if not d.startswith("tmp-")),
            key=lambda d: os.path.getmtime(os.path.join(BUILD_ROOT, d)),
        )
        for d in ds[:-6]:
            shutil.rmtree(os.path.join(BUILD_ROOT, d), ignore_errors=True)
    except OSError:
        pass
    if not quiet:
        print("built natives in", bdir)
    return bdir


def child_env(repo=None, san=False, extra=None):
    """Environment for a process that must import the tree under test."""
    repo = repo or repo_root()
    bdir = ensure(repo, san)
    env = dict(os.environ)
    env["VERIF_REPO"] = repo
    env["VERIF_BUILD"] = bdir
    env["PYTHONPATH"] = os.pathsep.join(
        [os.path.join(VERIF, "vlib", "boot"), VERIF, os.path.join(repo, "src")]
    )
    env["PYTHONHASHSEED"] = "0"
    env["PYTHONDONTWRITEBYTECODE"] = "1"
    env["MWLIB_VERIF"] = "1"
    env["MWLIB_FETCH_MAX_REQUESTS_PER_SECOND"] = "0"
    env.pop("PYTHONSTARTUP", None)
    if san:
        env["LD_PRELOAD"] = ASAN_RT
        env["ASAN_OPTIONS"] = "detect_leaks=0:halt_on_error=1:abort_on_error=1:allocator_may_return_null=1"
        env["UBSAN_OPTIONS"] = "halt_on_error=1:print_stacktrace=1"
        env["PYTHONMALLOC"] = "malloc"
    if extra:
        env.update(extra)
    return env


if __name__ == "__main__":
    print(ensure(san="--san" in sys.argv, quiet=False))
