"""Producers for C20, each run in its own process (under strace): python -m vlib.drivers.producers <name> <workdir>

Everything is imported and prepared first; then the marker syscall (an openat of a sentinel name that
does not exist) is issued and the producer runs.  The published path is <workdir>/out.<ext>.
"""
import json
import os
import sys


def mark(workdir):
    try:
        os.close(os.open(os.path.join(workdir, "__VERIF_MARK__"), os.O_RDONLY))
    except OSError:
        pass
    lim = os.environ.get("VERIF_FSIZE")
    if lim:
        # "the disk is full after N bytes of any one file": the kernel completes the write up to the limit
        # (a short write) and fails the next one with EFBIG (CPython ignores SIGXFSZ)
        import resource
        resource.setrlimit(resource.RLIMIT_FSIZE, (int(lim), int(lim)))


def p_status(workdir):
    import mwlib.utils.status as st
    path = os.path.join(workdir, "out.json")
    mark(workdir)
    s = st.Status(path)
    s.stdout = None
    s(status="fetching", progress=10)
    s(status="rendering", progress=55, article="Some article")
    s(status="finished", progress=100)


def p_status_big(workdir):
    import mwlib.utils.status as st
    path = os.path.join(workdir, "out.json")
    mark(workdir)
    s = st.Status(path)
    s.stdout = None
    s(status="rendering", progress=5, article="x" * 20000)
    s(status="finished", progress=100, article="y" * 30000)


def p_zip(workdir):
    from mwlib.apps.buildzip import ZipCreator
    src = os.path.join(workdir, "src")
    mark(workdir)
    ZipCreator.create_zip(src, os.path.join(workdir, "out.zip"))


def p_download(workdir, title="out.png"):
    import logging
    logging.disable(logging.CRITICAL)
    os.environ["MWLIB_FETCH_MAX_REQUESTS_PER_SECOND"] = "0"
    from mwlib.network import fetch
    data = open(os.path.join(workdir, "payload.bin"), "rb").read()

    class Resp:
        status_code = 200
        import httpx as _httpx
        headers = _httpx.Headers({"Content-Length": str(len(data)), "Content-Type": "image/png"})      # case-insensitive, as real ones

        def raise_for_status(self):
            pass

        def iter_bytes(self, chunk_size=16384):
            for i in range(0, len(data), 5000):
                yield data[i:i + 5000]

        def __enter__(self):
            return self

        def __exit__(self, *a):
            return False

    class Client:
        def stream(self, method, url):
            return Resp()

    fetch._get_download_client = lambda url: Client()
    from mwlib.utils import unorganized

    class Pool:
        def spawn(self, fn, *a):
            fn(*a)

        def add(self, g):
            pass

    class FsOut:
        def get_imagepath(self, t):
            return os.path.join(workdir, unorganized.fs_escape(t))

    class Stub:          # what Fetcher._download_image needs of a Fetcher
        fsout = FsOut()
        image_download_pool = pool = Pool()

    mark(workdir)
    # the fetcher's own choice of the temporary name, then download_to_file
    fetch.Fetcher._download_image(Stub(), "http://w.test/images/x.png", title)


def p_download_longname(workdir):
    from vlib.props.C20 import LONGTITLE
    try:
        p_download(workdir, LONGTITLE)
    except OSError as e:
        import errno
        if e.errno != errno.ENAMETOOLONG:      # the temporary name (two bytes longer) does not fit: not a fault of ours
            raise


def _install_wiki(workdir):
    import logging
    import random
    logging.disable(logging.CRITICAL)
    from mwlib.utils import conf
    if not conf.config.has_section("fetch"):
        conf.config.add_section("fetch")
    conf.config["fetch"]["max_requests_per_second"] = "0"
    from vlib.mon import synthwiki
    from vlib.props import C11
    case = json.load(open(os.path.join(workdir, "wiki.json")))
    w, shared = C11.wiki_from_case(case)
    net = synthwiki.Net(random.Random(1), max_latency=0.0)
    net.wikis = {"wiki.test": w, "commons.test": shared}
    synthwiki.install(net)
    return case


def p_makezip(workdir):
    case = _install_wiki(workdir)
    from mwlib.apps.buildzip import make_zip
    from mwlib.core import metabook
    from mwlib.utils.status import Status
    mb = metabook.Collection(title="B")
    for t, r in case["metabook"]:
        mb.append_article(t, revision=r)
    mb.wikis.append(metabook.WikiConf(baseurl="http://wiki.test/w/"))
    st = Status()
    st.stdout = None
    out = os.path.join(workdir, "out.zip")
    mark(workdir)
    make_zip(output=out, wiki_options={"script_extension": ".php", "imagesize": 800}, metabook=mb, status=st)


def p_mwzip_keep(workdir):
    p_mwzip(workdir, keep=True)


def p_mwzip(workdir, keep=False):
    """the mw-zip -o FILE path: ZipBuilder.build"""
    case = _install_wiki(workdir)
    from mwlib.apps import buildzip
    from mwlib.core import metabook
    mb = metabook.Collection(title="B")
    for t, r in case["metabook"]:
        mb.append_article(t, revision=r)
    mb.wikis.append(metabook.WikiConf(baseurl="http://wiki.test/w/"))
    out = os.path.join(workdir, "out.zip")
    cfg = buildzip.BuildConfig(output=out, posturl=None, getposturl=0, keep_tmpfiles=keep, status_file=None, config="http://wiki.test/w/",
                               imagesize=800, collectionpage=None, noimages=False, logfile=None, username=None, password=None,
                               domain=None, title=None, subtitle=None, editor=None, script_extension=".php", metabook=mb)
    mark(workdir)
    res = buildzip.ZipBuilder(cfg).build(None)
    if not res.success:
        raise SystemExit("build failed: %r" % (res.error,))


def p_render(workdir, writer="rl", ext="pdf"):
    import logging
    logging.disable(logging.CRITICAL)
    from mwlib.apps import render
    out = os.path.join(workdir, "out." + ext)
    args = ["-c", os.path.join(workdir, "collection.zip"), "-w", writer, "-o", out, "-s", os.path.join(workdir, "status.json")]
    mark(workdir)
    try:
        render.main(args, standalone_mode=False)
    except SystemExit:
        raise


def p_render_odf(workdir):
    p_render(workdir, "odf", "odt")


PRODUCERS = {"status": p_status, "status_big": p_status_big, "zip": p_zip, "download": p_download, "makezip": p_makezip,
             "mwzip": p_mwzip, "mwzip_keep": p_mwzip_keep, "download_longname": p_download_longname, "download_small": p_download, "render": p_render, "render_odf": p_render_odf}

if __name__ == "__main__":
    PRODUCERS[sys.argv[1]](sys.argv[2])
