"""Small delta-debugging reducer for string witnesses (bounded number of oracle calls)."""
import re


def shrink(text, still_fails, max_calls=150):
    toks = re.findall(r"\n|[ \t]+|\w+|[^\w\s]", text)
    calls = [0]

    def test(ts):
        if calls[0] >= max_calls:
            return False
        calls[0] += 1
        try:
            return bool(still_fails("".join(ts)))
        except BaseException:
            return False

    n = 2
    while len(toks) >= 2 and calls[0] < max_calls:
        chunk = max(1, len(toks) // n)
        reduced = False
        for i in range(0, len(toks), chunk):
            cand = toks[:i] + toks[i + chunk:]
            if cand and test(cand):
                toks = cand
                n = max(n - 1, 2)
                reduced = True
                break
        if not reduced:
            if chunk == 1:
                break
            n = min(len(toks), n * 2)
    return "".join(toks)
