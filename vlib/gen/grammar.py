"""G - well-formed document grammar (C02, C05, C07, C08).

A document is an AST; `serialize` chooses among equivalent spellings; `denotation` is the ordered
list of (word, chain) the markup denotes - chain being the abstract ancestors: ("section", level),
("heading",), ("list", "ul"|"ol"), ("item",), ("dterm",), ("ddesc",), ("table",), ("caption",),
("row",), ("cell", is_header), ("style", kind), ("link", target as written), ("extlink", url),
("ref",), ("pre",).

Words are unique lower-case tokens w<k> (never a magic word, URL scheme or entity).
"""

STYLES = ["b", "i", "u", "s", "sup", "sub", "small", "big"]
NS_TARGETS = ["", "", "", "Template:", ":Category:", "Help:", "User:", "Talk:"]


class Gen:
    def __init__(self, rnd, maxwords=120, for_clean=False, with_refs=True, with_tables=True, with_pre=True,
                 with_links=True):
        self.rnd = rnd
        self.k = 0
        self.maxwords = maxwords
        self.for_clean = for_clean
        self.with_refs = with_refs
        self.with_tables = with_tables
        self.with_pre = with_pre
        self.with_links = with_links
        self.targets = []

    # ---- leaves ------------------------------------------------------------------------------


    def word(self):
        self.k += 1
        return ("w", "w%d" % self.k)

    def words(self, lo=1, hi=4):
        return [self.word() for _ in range(self.rnd.randint(lo, hi))]

    def budget_left(self):
        return self.k < self.maxwords

    # ---- inline ------------------------------------------------------------------------------
    def inline(self, depth=0, allow_ref=True, allow_link=True, lo=1, hi=5, enclosing=()):
        """list of inline nodes; never empty; starts and ends with a plain word"""
        rnd = self.rnd
        out = [self.word()]
        for _ in range(rnd.randint(lo, hi)):
            x = rnd.random()
            if x < 0.45 or depth >= 2:
                out.append(self.word())
            elif x < 0.65:
                kind = rnd.choice([k for k in STYLES if k not in enclosing])
                quote = kind in ("b", "i") and depth == 0 and rnd.random() < 0.6
                inner = self.inline(depth + 1, False, allow_link and not quote, 0, 2, enclosing + (kind,)) \
                    if not quote else self.words(1, 3)
                out.append(("style", kind, "quote" if quote else rnd.choice(("tag", "tag2")), inner))
                out.append(self.word())
            elif x < 0.8 and allow_link and self.with_links:
                out.append(self.link(enclosing))
                out.append(self.word())
            elif x < 0.9 and allow_link and self.with_links:
                url = "http://example.org/p%d" % rnd.randint(1, 999)
                if getattr(self, "last_url", None) and rnd.random() < 0.15:
                    url = self.last_url          # the same address cited again
                self.last_url = url
                out.append(("ext", url, self.words(1, 2) if rnd.random() < 0.7 else None))
                out.append(self.word())
            elif allow_ref and self.with_refs and depth == 0:
                body = self.links_only() if (self.with_links and rnd.random() < 0.15) else self.inline(1, False, True, 0, 3)
                if rnd.random() < 0.3:
                    self.nrefnames = getattr(self, "nrefnames", 0) + 1
                    name = "n%d" % self.nrefnames
                    if self.for_clean and self.nrefnames <= 3 and rnd.random() < 0.3:
                        # names that differ only in letter case are different references
                        name = ("Smith", "smith", "SMITH")[self.nrefnames - 1]
                    use_first = rnd.random() < 0.4
                    if use_first:
                        out.append(("refuse", name))
                        out.append(self.word())
                    out.append(("ref", body, name))
                    if not use_first and rnd.random() < 0.6:
                        out.append(self.word())
                        out.append(("refuse", name))
                else:
                    out.append(("ref", body))
                out.append(self.word())
            else:
                out.append(self.word())
        return out

    def links_only(self):
        """inline content made of label-less internal links only (their targets are the visible text)"""
        out = []
        for _ in range(self.rnd.randint(1, 2)):
            base = " ".join(w[1] for w in self.words(1, 2))
            out.append(("link", base.capitalize() if self.rnd.random() < 0.5 else base, None))
        return out

    def long_inline(self):
        """one long run of words with a few styled stretches (a cell of 1000-2000 characters)"""
        out = []
        for _ in range(self.rnd.randint(8, 16)):
            out.extend(self.words(15, 25))
            out.append(("style", self.rnd.choice(("b", "i")), "tag", self.words(1, 3)))
        out.append(self.word())
        return out

    def link(self, enclosing=()):
        rnd = self.rnd
        ns = rnd.choice(NS_TARGETS)
        base = " ".join(w[1] for w in self.words(1, 2))
        if rnd.random() < 0.5:
            base = base.capitalize()
        label = None
        if rnd.random() < 0.6 or ns:
            label = self.words(1, 2)
            free = [k for k in ("b", "i") if k not in enclosing]
            if rnd.random() < 0.2 and free:
                label = [("style", rnd.choice(free), "tag", label)]
        if label is None:
            # an unlabelled link shows its target: those words are visible text of the document
            self.targets.append(ns + base)
            return ("link", ns + base, None)
        if self.targets and rnd.random() < 0.3:
            # the same page linked again under another label (its name is not shown here)
            return ("link", rnd.choice(self.targets[-3:]), label)
        self.targets.append(ns + base)
        return ("link", ns + base, label)

    # ---- blocks ------------------------------------------------------------------------------
    def para(self):
        lines = [self.inline() for _ in range(self.rnd.randint(1, 2))]
        return ("para", lines)

    def wlist(self, depth=1):
        rnd = self.rnd
        kind = rnd.choice(("ul", "ol"))
        items = []
        for _ in range(rnd.randint(1, 4)):
            sub = None
            if depth < 4 and rnd.random() < 0.3 and self.budget_left():
                sub = self.wlist(depth + 1)
            items.append((self.links_only() if (self.with_links and rnd.random() < 0.12)
                          else self.inline(0, allow_ref=False, hi=3), sub))
        how = "html" if (depth == 1 and rnd.random() < 0.25) else "wiki"
        if depth == 1 and how == "wiki" and rnd.random() < 0.08:
            # a list written from its second level on ("## x" right away): the first-level item has no text of its own
            inner = ("list", rnd.choice(("ul", "ol")), items, "wiki")
            return ("list", kind, [([], inner)], "wiki")
        return ("list", kind, items, how)

    def dlist(self):
        items = []
        if self.for_clean and self.rnd.random() < 0.15:
            # a glossary whose answers repeat ("yes", "no"): entries that look alike are still separate entries
            for _ in range(self.rnd.randint(3, 6)):
                ans = self.rnd.choice(("yes", "no", "yes"))
                items.append(([self.word()] if self.rnd.random() < 0.7 else [("w", "same")], [[("w", ans)]]))
            return ("dlist", items)
        for _ in range(self.rnd.randint(1, 3)):
            term = self.inline(0, False, False, 0, 2)
            descs = [self.inline(0, False, True, 0, 3) for _ in range(self.rnd.randint(1, 2))]
            items.append((term, descs))
        return ("dlist", items)

    def table(self, nested=False):
        rnd = self.rnd
        ncols = rnd.randint(2, 4)
        nrows = rnd.randint(2, 4)
        if rnd.random() < 0.1:
            # a table with a single column and / or a single row
            ncols, nrows = rnd.choice(((1, 1), (1, 3), (3, 1), (1, 2), (2, 1)))
        header = rnd.random() < 0.6
        rows = []
        for r in range(nrows):
            cells = []
            for c in range(ncols):
                if not nested and rnd.random() < 0.06 and self.budget_left():
                    content = ("blocks", [self.table(nested=True)])
                elif rnd.random() < 0.05 and self.budget_left():
                    # several blocks in one cell, followed by plain text
                    bl = [("list", rnd.choice(("ul", "ol")), [(self.inline(0, False, hi=2), None) for _ in range(rnd.randint(1, 2))], "wiki")
                          for _ in range(2)]
                    if rnd.random() < 0.5 and not nested:
                        bl[1] = self.table(nested=True)
                    bl.append(("para", [self.inline(0, False, hi=3)]))
                    content = ("blocks", bl)
                elif rnd.random() < 0.12 and self.budget_left():
                    content = ("blocks", [("list", rnd.choice(("ul", "ol")),
                                           [(self.inline(0, False, hi=2), None) for _ in range(rnd.randint(1, 3))], "wiki")])
                elif rnd.random() < 0.06 and c > 0:
                    content = ("inline", [])       # a cell left blank
                else:
                    content = ("inline", self.inline(0, allow_ref=rnd.random() < 0.2, hi=3))
                cells.append((header and r == 0, content))
            rows.append(cells)
        if not nested and rnd.random() < 0.06 and self.maxwords >= 150:
            r0, c0 = rnd.randrange(nrows), rnd.randrange(ncols)
            rows[r0][c0] = (rows[r0][c0][0], ("inline", self.long_inline()))
        caption = self.inline(0, False, rnd.random() < 0.5, 0, 2) if rnd.random() < 0.3 else None
        how = "html" if (rnd.random() < 0.25 and not nested) else "wiki"
        if how == "html" and any(c[0] == "blocks" and any(b[0] == "table" for b in c[1]) for row in rows for _, c in row):
            how = "wiki"
        return ("table", caption, rows, how, rnd.choice(("", "", "", " ", "  ", "\t")))

    def pre(self):
        return ("pre", [self.words(1, 4) for _ in range(self.rnd.randint(1, 3))])

    def block(self):
        x = self.rnd.random()
        if x < 0.45:
            return self.para()
        if x < 0.65:
            return self.wlist()
        if x < 0.73:
            return self.dlist()
        if x < 0.9 and self.with_tables:
            return self.table()
        if self.with_pre:
            return self.pre()
        return self.para()

    def blocks(self, lo, hi, need_text=False):
        bs = []
        if need_text:
            bs.append(self.para())
        for _ in range(self.rnd.randint(lo, hi)):
            if not self.budget_left():
                break
            bs.append(self.block())
        return bs

    def section(self, level, depth=0):
        title = self.inline(0, False, False, 0, 2)
        if self.with_links and self.rnd.random() < 0.08:
            body = [("list", "ul", [(self.links_only(), None) for _ in range(self.rnd.randint(1, 4))], "wiki")]
        else:
            body = self.blocks(0, 3, need_text=True)
        subs = []
        if level < 5 and depth < 2:
            sublevel = min(5, level + self.rnd.choice((1, 1, 2)))
            for _ in range(self.rnd.randint(0, 2)):
                if self.budget_left():
                    subs.append(self.section(sublevel, depth + 1))
        return ("section", level, title, body, subs)

    def document(self):
        intro = self.blocks(0, 2, need_text=True)
        level = self.rnd.choice((2, 2, 3))
        secs = []
        for _ in range(self.rnd.randint(0, 3)):
            if self.budget_left():
                secs.append(self.section(level))
        return ("doc", intro, secs)


# ---- serialisation ---------------------------------------------------------------------------
class Ser:
    def __init__(self, rnd):
        self.rnd = rnd

    def inline(self, nodes):
        out = []
        for n in nodes:
            t = n[0]
            if t == "w":
                out.append(n[1])
            elif t == "style":
                _, kind, how, inner = n
                s = self.inline(inner)
                if how == "quote":
                    q = "'''" if kind == "b" else "''"
                    out.append(q + s + q)
                else:
                    tag = kind
                    if how == "tag2":
                        tag = {"b": "strong", "i": "em", "s": "strike"}.get(kind, kind)
                    out.append("<%s>%s</%s>" % (tag, s, tag))
            elif t == "link":
                _, target, label = n
                tgt = target.replace(" ", "_") if self.rnd.random() < 0.2 else target
                out.append("[[%s]]" % tgt if label is None else "[[%s|%s]]" % (tgt, self.inline(label)))
            elif t == "ext":
                _, url, label = n
                out.append(url if label is None else "[%s %s]" % (url, self.inline(label)))
            elif t == "ref":
                if len(n) > 2:
                    out.append("<ref name=\"%s\">%s</ref>" % (n[2], self.inline(n[1])))
                else:
                    out.append("<ref>%s</ref>" % self.inline(n[1]))
            elif t == "refuse":
                out.append("<ref name=\"%s\" />" % n[1])
        # a bare URL swallows following non-space characters; keep everything space separated,
        # except that a reference attaches to the preceding word
        s = ""
        for piece in out:
            if piece.startswith("<ref") and s:
                s += piece
            else:
                s += (" " if s else "") + piece
        return s

    def wikilist(self, lst, prefix=""):
        _, kind, items, how = lst
        ch = "*" if kind == "ul" else "#"
        lines = []
        for inl, sub in items:
            if inl or sub is None:
                lines.append(prefix + ch + self.rnd.choice((" ", "")) + self.inline(inl))
            if sub is not None:
                lines.extend(self.wikilist(sub, prefix + ch))
        return lines

    def htmllist(self, lst):
        _, kind, items, how = lst
        out = ["<%s>" % kind]
        for inl, sub in items:
            out.append("<li>%s%s</li>" % (self.inline(inl), ("\n" + self.htmllist(sub) + "\n") if sub else ""))
        out.append("</%s>" % kind)
        return "\n".join(out)

    def block(self, b):
        rnd = self.rnd
        t = b[0]
        if t == "para":
            return "\n".join(self.inline(l) for l in b[1])
        if t == "list":
            if b[3] == "html":
                return self.htmllist(b)
            return "\n".join(self.wikilist(b))
        if t == "dlist":
            lines = []
            for term, descs in b[1]:
                if len(descs) == 1 and rnd.random() < 0.5:
                    lines.append("; %s : %s" % (self.inline(term), self.inline(descs[0])))
                else:
                    lines.append(";" + rnd.choice((" ", "")) + self.inline(term))
                    for d in descs:
                        lines.append(":" + rnd.choice((" ", "")) + self.inline(d))
            return "\n".join(lines)
        if t == "pre":
            return "\n".join(" " + " ".join(w[1] for w in ws) for ws in b[1])
        if t == "table":
            _, caption, rows, how, ind = b
            if how == "html":
                out = ["<table>"]
                if caption:
                    out.append("<caption>%s</caption>" % self.inline(caption))
                for cells in rows:
                    out.append("<tr>" + "".join(
                        "<%s>%s</%s>" % ("th" if hd else "td",
                                         self.cell(c) if c[0] == "inline" else "\n" + self.cell(c) + "\n",
                                         "th" if hd else "td") for hd, c in cells) + "</tr>")
                out.append("</table>")
                return "\n".join(out)
            out = ["{|" + rnd.choice(("", ' class="wikitable"', ' border="1"'))]
            if caption:
                out.append("|+ " + self.inline(caption))
            first = True
            for cells in rows:
                if not first or rnd.random() < 0.5:
                    out.append("|-")
                first = False
                oneline = all(c[0] == "inline" for _, c in cells) and rnd.random() < 0.5
                hd = cells[0][0]
                mark = "!" if hd else "|"
                if oneline:
                    out.append(mark + " " + (" " + mark * 2 + " ").join(self.cell(c) for _, c in cells))
                else:
                    for _, c in cells:
                        if c[0] == "inline":
                            out.append(mark + " " + self.cell(c))
                        else:
                            out.append(mark)
                            out.append(self.cell(c))
            out.append("|}")
            # table markup may be indented by blanks (MediaWiki strips them); nested table lines keep
            # their own indentation
            return "\n".join((ind + l) if l[:1] in "{|!" and not l.startswith("{{") else l for l in out)
        raise ValueError(t)

    def cell(self, c):
        if c[0] == "inline":
            return self.inline(c[1])
        return "\n\n".join(self.block(b) for b in c[1])

    def blocks(self, bs):
        out = ""
        prev = None
        for b in bs:
            txt = self.block(b)
            if prev is not None:
                # line-based blocks (list / definition-list lines next to paragraph lines) need no blank
                # line between them: the line prefix alone ends the paragraph
                tight = (self._line_based(prev) and self._line_based(b) and self._line_kind(prev) != self._line_kind(b)
                         and self.rnd.random() < 0.3)
                out += "\n" if tight else "\n" + self.rnd.choice(("\n", "\n", "\n\n"))
            out += txt
            prev = b
        return out

    @staticmethod
    def _line_kind(b):
        return (b[0], b[1]) if b[0] == "list" else b[0]

    @staticmethod
    def _line_based(b):
        return b[0] in ("para", "dlist") or (b[0] == "list" and b[3] == "wiki")

    def section(self, s):
        _, level, title, body, subs = s
        eq = "=" * level
        pad = self.rnd.choice((" ", ""))
        parts = ["%s%s%s%s%s" % (eq, pad, self.inline(title), pad, eq)]
        if body:
            parts.append(self.blocks(body))
        for sub in subs:
            parts.append(self.section(sub))
        return "\n\n".join(parts) if self.rnd.random() < 0.7 else "\n".join(parts)

    def document(self, doc):
        _, intro, secs = doc
        parts = [self.blocks(intro)] + [self.section(s) for s in secs]
        return "\n\n".join(parts) + "\n"


# ---- denotation ------------------------------------------------------------------------------
def denotation(doc):
    out = []

    def inline(nodes, chain):
        for n in nodes:
            t = n[0]
            if t == "w":
                out.append((n[1], chain))
            elif t == "style":
                inline(n[3], chain + (("style", n[1]),))
            elif t == "link":
                c = chain + (("link", n[1].lstrip(":")),)
                if n[2] is None:
                    for w in n[1].split(":")[-1].split():
                        out.append((w.lower(), c))
                else:
                    inline(n[2], c)
            elif t == "ext":
                c = chain + (("extlink", n[1]),)
                if n[2] is None:
                    out.append((n[1], c))
                else:
                    inline(n[2], c)
            elif t == "ref":
                inline(n[1], chain + (("ref",),))

    def wl(lst, chain):
        _, kind, items, how = lst
        c = chain + (("list", kind),)
        for inl, sub in items:
            ci = c + (("item",),)
            inline(inl, ci)
            if sub is not None:
                wl(sub, ci)

    def block(b, chain):
        t = b[0]
        if t == "para":
            for l in b[1]:
                inline(l, chain)
        elif t == "list":
            wl(b, chain)
        elif t == "dlist":
            for term, descs in b[1]:
                inline(term, chain + (("dterm",),))
                for d in descs:
                    inline(d, chain + (("ddesc",),))
        elif t == "pre":
            for ws in b[1]:
                for w in ws:
                    out.append((w[1], chain + (("pre",),)))
        elif t == "table":
            _, caption, rows, how, ind = b
            c = chain + (("table",),)
            if caption:
                inline(caption, c + (("caption",),))
            for cells in rows:
                for hd, content in cells:
                    cc = c + (("row",), ("cell", bool(hd)))
                    if content[0] == "inline":
                        inline(content[1], cc)
                    else:
                        for bb in content[1]:
                            block(bb, cc)

    def section(s, chain):
        _, level, title, body, subs = s
        c = chain + (("section", level),)
        inline(title, c + (("heading",),))
        for b in body:
            block(b, c)
        for sub in subs:
            section(sub, c)

    _, intro, secs = doc
    for b in intro:
        block(b, ())
    for s in secs:
        section(s, ())
    return out


def make(rnd, **kw):
    g = Gen(rnd, **kw)
    doc = g.document()
    text = Ser(rnd).document(doc)
    return doc, text
