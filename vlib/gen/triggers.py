"""Trigger generator (C05/C06): documents decorated with the attribute/class/id/style values and shapes
that switch individual cleaner passes on."""
from . import grammar
from . import wikitext as W

NOPRINT = ["hiddenStructure", "dablink", "rellink", "editlink", "metadata", "noprint", "portal", "sisterproject",
           "NavFrame", "geo-multi-punct", "geo-nondefault", "coordinates_3_ObenRechts", "microformat", "navbox",
           "navbox-vertical", "Vorlage_Gesundheitshinweis", "hatnote", "infobox collapsible collapsed", "printonly",
           "infobox", "toccolours", "thumb", "mp-upper", "references-small", "editsection", "BSicon"]
STYLES = ["overflow:auto; height:200px", "overflow:auto; height:80%", "overflow:scroll;height:20em", "overflow:auto",
          "visibility:hidden", "display:none", "position:absolute; top:3px", "position:relative", "float:right; width:200px",
          "width:100%", "height:400px", "font-size:200%", "text-align:center", "direction:rtl", "clear:both",
          "position:absolute", "overflow:auto; width:500px; height:2000pt"]
IDS = ["region_list", "toc", "coordinates", "mp-upper", "catlinks", "foo"]


def words(rnd, n):
    return " ".join("x%d" % rnd.randint(1, 9999) for _ in range(n))


def attrs(rnd):
    a = []
    if rnd.random() < 0.6:
        a.append('class="%s"' % rnd.choice(NOPRINT))
    if rnd.random() < 0.6:
        a.append('style="%s"' % rnd.choice(STYLES))
    if rnd.random() < 0.3:
        a.append('id="%s"' % rnd.choice(IDS))
    if rnd.random() < 0.15:
        a.append(rnd.choice(('colspan="3"', 'rowspan="2"', 'colspan="0"', 'colspan="x"', 'width="400"', 'align="right"', 'dir="rtl"',
                            'colspan="\u00b2"', 'rowspan="\u2461"', 'colspan="\u0663"', 'colspan="-1"', 'rowspan="2.5"', 'colspan=" 2 "',
                            'colspan="1e3"', 'rowspan="99999999999"', 'colspan="\uff12"', 'colspan="\u00bd"', 'width="\u00b2"',
                            'height="\u2461px"', 'border="\u00b2"', 'colspan=""', 'rowspan="+2"')))
    return (" " + " ".join(a)) if a else ""


def small_table(rnd, rows=None, cols=None, nested=0, cellfn=None):
    rows = rows or rnd.randint(1, 4)
    cols = cols or rnd.randint(1, 4)
    out = ["{|" + attrs(rnd)]
    for r in range(rows):
        out.append("|-" + (attrs(rnd) if rnd.random() < 0.2 else ""))
        for c in range(cols):
            mark = "!" if rnd.random() < 0.2 else "|"
            content = cellfn(rnd) if cellfn else cell(rnd, nested)
            a = attrs(rnd).strip() if rnd.random() < 0.25 else ""
            out.append(mark + (a + " | " if a else " ") + content)
    out.append("|}")
    return "\n".join(out)


def cell(rnd, nested):
    x = rnd.random()
    if x < 0.4:
        return words(rnd, rnd.randint(0, 6))
    if x < 0.5:
        return "\n" + "\n".join("* " + words(rnd, 2) for _ in range(rnd.randint(1, 8)))
    if x < 0.58 and nested < 2:
        return "\n" + small_table(rnd, nested=nested + 1)
    if x < 0.64:
        return "[[File:BSicon_%s.svg|20px]]" % rnd.choice(("STR", "BHF", "x"))
    if x < 0.70:
        return "[[File:P%d.png|thumb|%s]]" % (rnd.randint(1, 9), words(rnd, 3))
    if x < 0.75:
        return "\n== %s ==\n%s" % (words(rnd, 2), words(rnd, 5))
    if x < 0.8:
        return "<big>%s</big>" % words(rnd, 3)
    if x < 0.85:
        return "<gallery>\nFile:A.png|cap\nFile:B.png\n</gallery>"
    if x < 0.9:
        return words(rnd, rnd.choice((200, 700, 1500)))
    if x < 0.95:
        return "<br/>".join(words(rnd, 2) for _ in range(rnd.randint(2, 40)))
    return "<ref name=\"r%d\">%s</ref>" % (rnd.randint(1, 3), words(rnd, 3))


FRAGMENTS = [
    # tall cells (page-height splitter), new cells starting with a line break
    lambda r: "{|\n| " + "<br/>".join(words(r, r.randint(1, 3)) for _ in range(r.choice((30, 45, 70)))) + "\n| " + words(r, 3) + "\n|-\n| a || b\n|}",
    lambda r: "{| class=\"wikitable\"\n| " + "\n\n".join(words(r, 60) for _ in range(r.randint(3, 6))) + "\n| " + words(r, 5) + "\n| " + words(r, 2) + "\n|}",
    # tables and block content inside image captions, bare and wrapped
    lambda r: "[[File:P.png|thumb|%s{|\n| %s\n|}%s]]" % (r.choice(("", "<center>", "<div>", "x\n\n")), words(r, 2), r.choice(("", "</center>", "</div>", ""))),
    lambda r: "[[File:P.png|thumb|<center>\n%s\n</center>]]" % small_table(r, rows=2, cols=2, cellfn=lambda rr: words(rr, 1)),
    lambda r: "[[File:P.png|frame|\n* %s\n* %s\n]]" % (words(r, 1), words(r, 2)),
    lambda r: "<gallery>\nFile:A.png|{|\n|x\n|}\n</gallery>",
    lambda r: "<div%s>%s</div>" % (attrs(r), words(r, 4)),
    lambda r: "<div%s>\n%s\n</div>" % (attrs(r), small_table(r)),
    lambda r: '<div id="region_list">\n%s\n%s\n</div>' % (small_table(r), small_table(r)),
    lambda r: "{|\n| <div style=\"overflow:auto; height:200px\">%s</div>\n|}" % words(r, 3),
    lambda r: '{| style="overflow:auto; height:200px"\n| %s\n|}' % words(r, 3),
    lambda r: "<span%s>%s</span>" % (attrs(r), words(r, 3)),
    lambda r: small_table(r),
    lambda r: small_table(r, rows=r.randint(1, 3), cols=r.choice((1, 16, 20))),
    lambda r: small_table(r, rows=r.choice((26, 40)), cols=2, cellfn=lambda rr: words(rr, 2)),
    lambda r: small_table(r, rows=r.randint(1, 3), cols=1),
    lambda r: small_table(r, rows=2, cols=2, cellfn=lambda rr: "\n" + "\n".join("* " + words(rr, 2) for _ in range(rr.randint(4, 9)))),
    lambda r: "{|\n|\n" + small_table(r, cols=r.choice((3, 17))) + "\n|}",
    lambda r: "<ref name=\"n%d\">%s</ref> <ref name=\"n%d\"/> <ref name=\"n%d\" />" % ((r.randint(1, 3), words(r, 3)) + (r.randint(1, 3), r.randint(1, 3))),
    lambda r: "<ref>[[A]] [[A]] [http://e.org x] [http://e.org x]</ref>",
    # the repeated link one level down (italics, a citation span, a second line)
    lambda r: "<ref>[http://e.org/%s a] %s</ref>" % ((lambda k: (k, r.choice((
        "''[http://e.org/%s b]''", "<span class=\"citation\">[http://e.org/%s c]</span>", "x\n\n[http://e.org/%s d]",
        "<b>[http://e.org/%s e]</b>", "<small>http://e.org/%s</small>")) % k))(r.randint(1, 3))),
    lambda r: "<div class=\"noprint\"><ref name=\"n1\">hidden def</ref></div> later <ref name=\"n1\"/>",
    lambda r: "<references/>",
    lambda r: "<sup>%s</sup>" % words(r, r.choice((1, 30))),
    lambda r: "<sub><sup>%s</sup></sub>" % words(r, 2),
    lambda r: "== See also ==\n* [[A]]\n* [[B]]\n",
    lambda r: "== %s ==\n" % r.choice(("See also", "External links", "Weblinks", "Siehe auch", "x")),
    lambda r: "[[File:Sound.ogg|thumb|%s]] [[Media:x.ogg]] [[File:a.OGG]]" % words(r, 2),
    lambda r: "[[File:Pic.png|thumb|%s]]" % words(r, r.choice((3, 80, 400))),
    lambda r: "[[File:Pic.jpg|%s]]" % r.choice(("left", "right|200px", "frame|cap", "thumb", "")),
    lambda r: "; %s\n: %s\n: %s" % (words(r, 2), words(r, 3), words(r, 2)),
    lambda r: "%s\n; %s : %s" % (words(r, 3), words(r, 1), words(r, 2)),
    lambda r: "<pre>%s\n[[File:a.png]]\n* x\n</pre>" % words(r, 3),
    lambda r: " pre [[File:a.png]] ''b [[File:b.png]]''",
    lambda r: "<center><u>%s</u></center> <u><center>%s</center></u>" % (words(r, 2), words(r, 2)),
    lambda r: '<div dir="rtl"><math>x^2</math> %s</div>' % words(r, 2),
    lambda r: "<math>\\frac{a}{b}</math>",
    lambda r: "<gallery>\nFile:A.png|%s\nFile:B.png\n</gallery>" % words(r, 3),
    lambda r: "<ul><li>a</li><b>x</b><ol><li>q</li></ol>loose</ul>",
    # a reference nested in a repeated definition of a named reference
    lambda r: "<ref name=a>%s</ref>%s<ref name=a>%s%s </ref> u" % (
        r.choice(("x", words(r, 2))), r.choice(("", " t ")), r.choice(("[[file:PNG]]", "[[file:p.PNG]] ", words(r, 1) + " ", "")),
        r.choice(("{{#tag:ref}}", "{{#tag:ref|x}}", "<ref>y</ref>", "<ref></ref>", "<ref>%s</ref>" % words(r, 2), "{{#tag:ref|%s|name=a}}" % words(r, 1)))),
    # a heading line cut by table markup (one token used to end up in two places of the tree)
    lambda r: " {|\n%s ||%s==\n[http://e.none]</\n== <%s> ===" % (r.choice(("===", "==", "=")), words(r, 1), r.choice(("table", "td", "div", "ref", "b"))),
    lambda r: "{|\n|\n%s\n{|\n|}<%s> </%s>\n=%s<TH ref>C=" % (r.choice(("=|=", "==|==", "= a | b =")), *((r.choice(("hiero", "math", "b", "ref")),) * 2), words(r, 1)),
    # a layout table whose cells hold nothing but big tables, one of which holds a table itself (three levels)
    lambda r: "{|\n|\n" + "\n|\n".join(
        '{| class="wikitable"\n| %s || %s\n|-\n|%s\n| %s\n|}' % (
            words(r, r.choice((90, 150))), words(r, 3),
            ("\n" + small_table(r, rows=2, cols=2, cellfn=lambda rr: words(rr, 2))) if i == 0 or r.random() < 0.5 else " " + words(r, 2),
            words(r, 2))
        for i in range(r.randint(2, 3))) + "\n|}",
    # an argument that carries an extension tag, used twice by the template
    lambda r: "{{twice|%s}}" % r.choice(("<ref>%s</ref>", "<gallery>\nFile:A.png|%s\n</gallery>", "<poem>%s</poem>", "<nowiki>%s</nowiki>",
                                         "<math>%s</math>", "<ref name=\"tw\">%s</ref>", "<source>%s</source>", "<imagemap>\nFile:A.png|%s\n</imagemap>"))
    % words(r, 2),
    lambda r: "<%s>%s</%s>" % ((lambda t: (t, r.choice(("<math>x</math>", "a<br/>b", "<math>y</math> z", "<b>q</b><li>i</li>", "[[File:a.png|20px]]",
                                                      "<ref>r</ref>", "<div>d</div>")), t))(r.choice(("ul", "ol")))),
    # a table that is dissolved into columns (long list in a cell / mp-upper) with a caption richer than its column count
    lambda r: '{| %s\n|+ %s\n| %s\n| %s\n|}' % (
        r.choice(('class="mp-upper"', 'id="mp-upper"', 'class="wikitable"', "")),
        " ".join(r.choice(("'''%s'''", "[[L%s|l]]", "''%s''", "%s", "<small>%s</small>", "[[M%s]]", "[http://e.org/%s x]")) % words(r, 1)
                 for _ in range(r.randint(1, 7))),
        "\n" + "\n".join("* " + words(r, 1) for _ in range(r.choice((3, 26, 30)))), words(r, 2)),
    lambda r: "<ol><ol><li>%s</li></ol></ol>" % words(r, 2),
    lambda r: ":{|\n| a\n|}\n::{|\n| b\n|}",
    lambda r: "<p>%s<br/><br/></p><br/>" % words(r, 3),
    lambda r: "<br/>" * r.randint(1, 5) + words(r, 2) + "<br/>" * r.randint(1, 3),
    lambda r: "<blockquote>%s</blockquote>" % words(r, 5),
    lambda r: "[[Category:C]] [[de:X]] [[:Category:D]]",
    lambda r: "<span class=\"editsection\">[edit]</span>",
    lambda r: "<h2>%s</h2>\n<p>%s</p>" % (words(r, 2), words(r, 4)),
    lambda r: "<i>%s\n\n%s</i>" % (words(r, 2), words(r, 2)),
    lambda r: "<b></b><i> </i><u><b></b></u>",
    lambda r: "{{#tag:ref|%s|name=z}}" % words(r, 2),
    lambda r: "<timeline>\nx\n</timeline>",
    lambda r: "<imagemap>\nFile:A.png|100px\nrect 0 0 1 1 [[T]]\n</imagemap>",
    lambda r: "<source lang=\"python\">x = 1\n</source>",
    lambda r: "<poem>\n%s\n%s\n</poem>" % (words(r, 3), words(r, 3)),
    lambda r: "<li>%s</li>" % words(r, 2),
    lambda r: "<td>%s</td><tr><td>x" % words(r, 2),
    lambda r: "<span style=\"display:none\">%s</span><div style=\"visibility:hidden\">%s</div>" % (words(r, 2), words(r, 2)),
    lambda r: "== %s ==\n<references group=\"n\"/>\n<references/>%s" % (words(r, 1), r.choice(("", "\n<references/>", "\n" + words(r, 2)))),
    # malformed HTML table pieces between the start of a table and its first row / between rows
    lambda r: "{|\n%s\n|-\n| %s || %s\n|}" % (r.choice(("<table><tr>stray text</table>", "<tr>x", "<td>y</td>", "<table>", "</table>",
                                                          "<caption>c", "<th>h<tr>", "stray text", "<div>d</div>", "<table><caption>q</table>")),
                                                words(r, 1), words(r, 1)),
    lambda r: "<table>%s<tr><td>%s</td></tr>%s</table>" % (r.choice(("stray", "<b>x</b>", "<table><tr>stray</table>", "<li>i", "<tr>")), words(r, 1),
                                                            r.choice(("", "tail", "<td>z", "<table></table>"))),
    # the trigger attributes on every structural HTML element, not only on div/span/table
    lambda r: "<%s%s>%s</%s>" % ((lambda t: (t, attrs(r), "".join("<li%s>%s</li>" % (attrs(r) if r.random() < 0.3 else "", words(r, 2))
                                                           for _ in range(r.randint(1, 3))), t))(r.choice(("ul", "ol")))),
    lambda r: "<dl%s><dt%s>%s</dt><dd%s>%s</dd></dl>" % (attrs(r), attrs(r), words(r, 1), attrs(r), words(r, 2)),
    lambda r: "<table%s><caption%s>%s</caption><tr%s><td%s>%s</td><th%s>%s</th></tr></table>" % (
        attrs(r), attrs(r), words(r, 1), attrs(r), attrs(r), words(r, 2), attrs(r), words(r, 1)),
    lambda r: "<%s%s>%s</%s>" % ((lambda t: (t, attrs(r), words(r, 3), t))(r.choice(
        ("p", "center", "blockquote", "big", "small", "b", "i", "u", "s", "sup", "sub", "h3", "pre", "code", "tt", "cite", "font", "strike")))),
    lambda r: "<ref%s>%s</ref><references%s/>" % (attrs(r), words(r, 2), attrs(r)),
    lambda r: "<gallery%s>\nFile:A.png|%s\n</gallery>" % (attrs(r), words(r, 2)),
]


REPEATABLE = [
    lambda r: "; %s : %s" % (words(r, 1), words(r, 2)),
    lambda r: "; %s\n: %s" % (words(r, 1), words(r, 2)),
    lambda r: "<u><center>%s</center></u>" % words(r, 1),
    lambda r: "%s<br/>" % words(r, 1),
    lambda r: "<i>%s\n\n%s</i>" % (words(r, 1), words(r, 1)),
    lambda r: "<ref>%s</ref>" % words(r, 2),
    lambda r: "<ref name=\"n%d\"/>" % r.randint(1, 3),
    lambda r: "== %s ==\n<p>%s</p>" % (words(r, 1), words(r, 2)),
    lambda r: "<b></b>",
    lambda r: "{|\n| %s\n|}" % words(r, 1),
    lambda r: "[[File:A%d.png|20px]]" % r.randint(1, 9),
    lambda r: "[[Image:a.png|20px]]",
    lambda r: "<span></span>",
    lambda r: "''%s''" % words(r, 1),
    lambda r: "<br/>",
    lambda r: ":{|\n| %s\n|}" % words(r, 1),
    lambda r: "* %s\n" % words(r, 1),
    lambda r: "<div class=\"noprint\">%s</div>" % words(r, 1),
    lambda r: "<li>%s</li>" % words(r, 1),
    lambda r: "<references/>",
]


WIDE = [lambda r: "[[Image:a.png|20px]]", lambda r: "<span></span>", lambda r: "[[File:A%d.png|20px]]" % r.randint(1, 9),
        lambda r: "<b></b>"]


def repeated(rnd):
    if rnd.random() < 0.2:
        # a very long run of textless inline siblings (icon rows): breadth, not depth
        f = rnd.choice(WIDE)
        n = rnd.choice((1100, 1500))
    else:
        f = rnd.choice(REPEATABLE)
        n = rnd.choice((101, 130, 260))
    sep = rnd.choice(("\n", "\n\n", " ", "", "\n\n"))
    body = sep.join(f(rnd) for _ in range(n))
    if rnd.random() < 0.3:
        body += rnd.choice(("<br/>", "\n\n", " ")) + words(rnd, 1)
    x = rnd.random()
    if x < 0.2:
        return "{|\n|\n" + body + "\n|}"
    if x < 0.35:
        return "<div%s>\n%s\n</div>" % (attrs(rnd), body)
    if x < 0.5:
        return "== %s ==\n%s" % (words(rnd, 1), body)
    return body


def deep(rnd):
    """one element nested far deeper than any article needs (the parser copes; copying such a subtree does not)"""
    n = rnd.choice((120, 180, 250, 400))
    tag = rnd.choice(("span", "b", "small", "div", "i", "sup"))
    inner = "<%s>" % tag * n + words(rnd, 2) + "</%s>" % tag * n
    x = rnd.random()
    if x < 0.3:
        return ":{|\n| " + inner + "\n| " + words(rnd, 1) + "\n|}"
    if x < 0.5:
        return "{|\n|\n* " + inner + "\n* " + words(rnd, 1) + "\n|}"
    if x < 0.7:
        return "; " + words(rnd, 1) + " : " + inner
    if x < 0.85:
        return "<u><center>" + inner + "</center></u>"
    return inner + "\n\n" + words(rnd, 3)


def document(rnd, n=None):
    n = n or rnd.randint(1, 8)
    parts = []
    for _ in range(n):
        x = rnd.random()
        if x < 0.6:
            f = rnd.choice(FRAGMENTS)
            parts.append(f(rnd))
            if rnd.random() < 0.15:
                parts.append(f(rnd))     # the same shape twice in a row
        elif x < 0.8:
            doc, text = grammar.make(rnd, maxwords=rnd.choice((10, 30)))
            parts.append(text)
        else:
            parts.append(W.structured(rnd, rnd.randint(3, 20)))
    sep = rnd.choice(("\n\n", "\n", " "))
    return sep.join(parts)
