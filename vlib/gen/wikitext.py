"""W - wikitext alphabet fuzzer (C01, C03 programs, C05, C06, C09 bodies).

All generators take a random.Random and are pure.  `depth_estimate` gives the structural nesting
depth used to keep inputs inside C01's quantifier (nesting <= 40).
"""
import re

LANGS = ["de", "en", "es", "fr", "it", "ja", "nl", "no", "pl", "pt", "simple", "sv"]

HTML_TAGS = ["abbr", "b", "big", "blockquote", "br", "center", "cite", "code", "del", "div", "em", "font",
             "h1", "h2", "h3", "h4", "h5", "h6", "hr", "i", "index", "inputbox", "ins", "kbd", "li", "ol", "p",
             "pages", "references", "rss", "s", "small", "span", "strike", "strong", "sub", "sup", "caption",
             "table", "td", "th", "tr", "tt", "u", "ul", "var", "dl", "dt", "dd", "mapframe", "startfeed", "endfeed"]
EXT_TAGS = ["nowiki", "math", "imagemap", "gallery", "source", "pre", "ref", "timeline", "poem", "pages",
            "syntaxhighlight", "rot13", "idl", "rdf", "time", "hiero", "section", "listing", "see", "buy", "do",
            "eat", "drink", "sleep", "ignoreme", "unknowntag", "noinclude", "includeonly", "onlyinclude", "references",
            "chem", "ce", "score", "graph", "templatestyles", "mapframe", "categorytree", "inputbox", "indicator"]
ATTRS = ['', ' class="x"', ' style="color:red"', ' style="overflow:auto; height:200px"', ' id="region_list"',
         ' class="noprint"', ' class="navbox"', ' style="display:none"', ' style="visibility:hidden"',
         ' style="position:absolute"', ' style="position:relative"', ' align=right', ' colspan=2', ' rowspan="3"',
         ' colspan="9999"', ' rowspan=-1', ' width="50%"', ' style="width:100px;float:right"', ' name="n1"',
         ' group="g"', ' lang="python"', ' class="wikitable sortable"', ' cellpadding=3 border=1',
         ' style="font-size:200%"', ' a=b c="d" e=\'f\'', ' =', ' "', " x='", ' class="printonly"',
         ' style="height:80%; overflow:auto"', ' bgcolor=#ff0', ' style="background:#abcdef"', ' dir=rtl']
ENTITIES = ["&amp;", "&lt;", "&gt;", "&nbsp;", "&quot;", "&foo;", "&#65;", "&#x41;", "&#0;", "&#xD800;", "&#x110000;",
            "&#99999999999;", "&#x99999999999999;", "&#;", "&#x;", "&", "&#1114111;", "&#1114112;", "&#x7f;", "&#32;"]
URLS = ["http://example.org/a?b=c&d", "https://e.org", "//e.org/x", "ftp://f.org/y", "mailto:a@b.c", "irc://i.net/c",
        "news:comp.lang", "http://", "https://[::1]/", "http://e.org/ä"]
MAGIC = ["__TOC__", "__NOTOC__", "__NOEDITSECTION__", "__FORCETOC__", "__START__", "__END__", "__NOGALLERY__"]
LINE_START = ["*", "#", ":", ";", "**", "*#", "#:", ";:", ":::", "*" * 8, " ", "  ", "----", "-----", "{|", "|-", "|}", "|",
              "!", "|+", ":{|", " {|", " |}", " |-", "=", "==", "===", "======", "======="]
INLINE = ["''", "'''", "'''''", "''''", "'", "[[", "]]", "[", "]", "|", "||", "!!", "|!", "!", "=", "==", ":", ";",
          "{{", "}}", "{{{", "}}}", "<", ">", "/>", "</", "<!--", "-->", "<!-- c -->", "~~~~", "#", "*", "-", "\t", " "]
WORDS = ["foo", "Bar", "baz qux", "lorem ipsum dolor", "x", "File:Pic.png", "Image:a.jpg", "Category:C", "Template:T",
         "de:Wort", "thumb", "200px", "left", "center", "Datei:B.svg", "Media:m.ogg", "Kategorie:K", ":en:Page",
         "w:Foo", "#anchor", "Foo#sec", "a/b/../c", "BSicon_x.svg", "See also", "rect 1 2 3 4 [[T]]", "desc none"]
SPECIAL_CHARS = ["\x7fUNIQ-abc-1-0f-QINU\x7f", "\x7fUNIQ-nowiki-0-aa-QINU\x7f", "\x7f", "", "\x00", "\x01", "\x0b",
                 "\x0c", "\r", "\r\n", "‎", "‏", "​", "́", "ä", "ß", "日本", "\U0001d518", "\U0001f600",
                 "﻿", " ", "\xa0", "\ud800"]
TEMPLATE_NAMES = ["t", "T2", "box", "loop", "missing", "a|b", "#if:x|y|z", "#switch:a|a=1|#default=2", "#expr:1+1",
                  "#ifeq:a|a|y|n", "lc:ABC", "PAGENAME", "ns:10", "#tag:ref|x", "#tag:nowiki|y", "#time:Y", "padleft:x|5",
                  "urlencode:a b", "fullurl:X", "#ifexist:X|a|b", "#iferror:{{#expr:1/0}}|e|o", "formatnum:1234.5",
                  "DISPLAYTITLE:Zz", "DEFAULTSORT:k", "#titleparts:a/b/c|1|2", "#rel2abs:../x", "int:x", "plural:2|a|b",
                  "#language:de", "anchorencode:x y", "localurl:X|a=b", "CURRENTYEAR", "NAMESPACE", "TALKPAGENAME"]


def tag(rnd, name=None, kind=None):
    name = name or (rnd.choice(HTML_TAGS) if rnd.random() < 0.6 else rnd.choice(EXT_TAGS))
    kind = kind or rnd.choice(("open", "open", "close", "self"))
    if rnd.random() < 0.05:
        name = name.upper()
    if kind == "close":
        return "</%s>" % name
    a = rnd.choice(ATTRS) if rnd.random() < 0.4 else ""
    if rnd.random() < 0.12:
        a += odd_attr(rnd)
    return "<%s%s%s>" % (name, a, "/" if kind == "self" else "")


ATTR_NAMES = ["class", "id", "style", "align", "colspan", "rowspan", "width", "height", "lang", "name", "group", "dir", "border",
              "title", "perrow", "widths", "start", "value", "type", "cellspacing"]
HUGE_INT = "9" * 4301          # more digits than int() converts (sys.get_int_max_str_digits)
ATTR_VALUES = [HUGE_INT, "2007", "3", "-1", "0", "1.5", "", "\u00b2", "x y", "a:b", "1e3", "99999999999999999999", "0x10", "\u0663", " 7 ",
               "true", "None", "%", "50%", "1px", "#", "{{{1}}}", "&#50;"]
IMG_OPTS = [HUGE_INT + "px", "x" + HUGE_INT + "px", "200px", "x200px", "100x200px", "1x2x3px", "xxpx", "0px", "99999999999px", "px", "-5px", "200 px", "upright=1.2",
            "upright", "upright=x", "border", "frameless", "frame", "thumb", "thumbnail=x.png", "link=", "link=http://e.org", "alt=x",
            "page=2", "page=x", "lang=de", "class=3", "left", "none", "center", "baseline", "sub", "200px|300px", "x", ""]


def odd_attr(rnd):
    """an attribute whose value is not what its name suggests (numbers as class names, words as numbers ...)"""
    v = rnd.choice(ATTR_VALUES)
    q = rnd.choice(('"', '"', "'", ""))
    return " %s=%s%s%s" % (rnd.choice(ATTR_NAMES), q, v, q)


def image_link(rnd):
    name = rnd.choice(("File:Pic.png", "Image:a.jpg", "Datei:B.svg", "File:BSicon_x.svg", "Media:m.ogg", "File:x.tif", "file:p.PNG"))
    opts = [rnd.choice(IMG_OPTS) for _ in range(rnd.randint(0, 4))]
    if rnd.random() < 0.5:
        opts.append(rnd.choice(WORDS))
    return "[[%s%s]]" % (name, "".join("|" + o for o in opts))


def atom(rnd):
    x = rnd.random()
    if x < 0.22:
        return rnd.choice(WORDS)
    if x < 0.40:
        return rnd.choice(INLINE)
    if x < 0.52:
        return "\n" + (rnd.choice(LINE_START) if rnd.random() < 0.8 else "")
    if x < 0.66:
        return tag(rnd)
    if x < 0.71:
        return rnd.choice(ENTITIES)
    if x < 0.75:
        u = rnd.choice(URLS)
        return u if rnd.random() < 0.5 else "[%s %s]" % (u, rnd.choice(WORDS))
    if x < 0.78:
        return rnd.choice(MAGIC)
    if x < 0.84:
        return rnd.choice(SPECIAL_CHARS)
    if x < 0.90:
        return "{{%s}}" % rnd.choice(TEMPLATE_NAMES)
    if x < 0.93:
        return "{{{%s}}}" % rnd.choice(("1", "x", "1|d", "", "{{{2}}}"))
    if x < 0.945:
        return image_link(rnd)
    if x < 0.96:
        return "[[%s%s]]" % (rnd.choice(WORDS), rnd.choice(("", "|lbl", "|thumb|200px|cap ''x''", "|", "||")))
    if x < 0.98:
        return "\n\n"
    return chr(rnd.choice((rnd.randint(0x20, 0x7e), rnd.randint(0xa0, 0x24ff), rnd.randint(0x1f300, 0x1f64f))))


def soup(rnd, ntokens):
    out = []
    for _ in range(ntokens):
        a = atom(rnd)
        out.append(a)
        if rnd.random() < 0.3:
            out.append(" ")
    return "".join(out)


def structured(rnd, ntokens):
    """soup with balanced fragments mixed in, so that deeper passes are reached"""
    out = []
    n = 0
    while n < ntokens:
        x = rnd.random()
        if x < 0.5:
            out.append(soup(rnd, rnd.randint(1, 6)))
            n += 4
        elif x < 0.6:
            rows = rnd.randint(1, 4)
            t = ["\n{|" + rnd.choice(ATTRS)]
            if rnd.random() < 0.3:
                t.append("|+ " + soup(rnd, 2))
            for _ in range(rows):
                t.append("|-" + (rnd.choice(ATTRS) if rnd.random() < 0.2 else ""))
                cells = [soup(rnd, rnd.randint(0, 3)) for _ in range(rnd.randint(1, 4))]
                sep = rnd.choice(("||", "\n|", "!!", "\n!"))
                t.append(rnd.choice("|!") + sep.join(cells))
            if rnd.random() < 0.85:
                t.append("|}")
            out.append("\n".join(t) + "\n")
            n += rows * 4
        elif x < 0.7:
            k = rnd.randint(1, 5)
            out.append("\n" + "\n".join(rnd.choice(LINE_START[:11]) + " " + soup(rnd, 2) for _ in range(k)) + "\n")
            n += k * 3
        elif x < 0.78:
            lv = rnd.randint(1, 6)
            out.append("\n%s %s %s\n" % ("=" * lv, soup(rnd, 2).replace("\n", " "), "=" * rnd.choice((lv, lv, lv - 1, lv + 1))))
            n += 3
        elif x < 0.88:
            name = rnd.choice(HTML_TAGS + EXT_TAGS)
            out.append("<%s%s>%s</%s>" % (name, rnd.choice(ATTRS) if rnd.random() < 0.4 else "",
                                          soup(rnd, rnd.randint(0, 5)), name))
            n += 5
        elif x < 0.94:
            out.append("<ref%s>%s</ref>" % (rnd.choice(("", ' name="a"', ' name=a group=g')), soup(rnd, 3)))
            n += 4
        else:
            out.append("[[File:P.png|thumb|%s]]" % soup(rnd, 3))
            n += 4
    return "".join(out)


def mutate(rnd, text, k):
    """near-valid: k token-level deletions / duplications / swaps / insertions / truncation"""
    toks = re.findall(r"\n|\s+|\w+|[^\w\s]+", text)
    for _ in range(k):
        if not toks:
            break
        op = rnd.random()
        i = rnd.randrange(len(toks))
        if op < 0.3:
            del toks[i]
        elif op < 0.5:
            toks.insert(i, toks[i])
        elif op < 0.7:
            j = rnd.randrange(len(toks))
            toks[i], toks[j] = toks[j], toks[i]
        elif op < 0.95:
            toks.insert(i, atom(rnd))
        else:
            del toks[i:]
    return "".join(toks)


def depth_estimate(text):
    """upper bound of the markup nesting depth a document asks for (open tags, tables, links,
    templates, list-prefix length)"""
    d = best = 0
    for m in re.finditer(r"<(/?)([a-zA-Z]+)[^<>]*?(/?)>|\{\||\|\}|\[\[|\]\]|\{\{|\}\}|\n([*#:;]+)", text):
        s = m.group(0)
        if s.startswith("<"):
            if m.group(3):
                continue
            if m.group(1):
                d = max(0, d - 1)
            else:
                d += 1
        elif s in ("{|", "[[", "{{"):
            d += 1
        elif s in ("|}", "]]", "}}"):
            d = max(0, d - 1)
        elif m.group(4):
            best = max(best, d + len(m.group(4)))
        best = max(best, d)
    return best


# adversarial families with a size parameter, for growth ladders
FAMILIES = {
    "open-italic-runs": lambda n: "''a " * n,
    "bold-italic-mix": lambda n: "'''''a''b'''c " * n,
    "apostrophe-runs-one-line": lambda n: " ".join("'" * (2 + i % 4) + "x" for i in range(n)),
    "open-links": lambda n: "[[a " * n,
    "links-one-line": lambda n: "[[a|b]] " * n,
    "close-links": lambda n: "]] " * n,
    "open-tables": lambda n: "{|\n|a\n" * min(n, 30) + "x " * n,
    "table-cells": lambda n: "{|\n" + "|a||b\n|-\n" * n + "|}",
    "table-one-row": lambda n: "{|\n|" + "||".join("c%d" % i for i in range(n)) + "\n|}",
    "list-lines": lambda n: "\n".join("*" * (1 + i % 5) + " item" for i in range(n)),
    "deflist-lines": lambda n: "\n".join(";t%d:d" % i for i in range(n)),
    "headings": lambda n: "\n".join("%s h %s\ntext" % ("=" * (2 + i % 4), "=" * (2 + i % 4)) for i in range(n)),
    "unclosed-tags": lambda n: "".join("<b><i><span>" for _ in range(min(n, 12))) + "x " * n,
    "stray-closers": lambda n: "</b></div></span>" * n,
    "open-braces": lambda n: "{{a " * n,
    "refs": lambda n: "<ref>a</ref> " * n,
    "nowiki-regions": lambda n: "<nowiki>[[x]]</nowiki> " * n,
    "entities": lambda n: "&amp;&#65;&foo; " * n,
    "urls": lambda n: "http://e.org/a [http://e.org b] " * n,
    "long-line": lambda n: "word " * (n * 4),
    "pre-lines": lambda n: "\n".join(" pre line %d" % i for i in range(n)),
    "br-soup": lambda n: "a<br/>" * n,
    "dl-html": lambda n: "<dl>" + "<dt>a<dd>b" * min(n, 30) + "</dl>" + " x" * n,
    "pipes": lambda n: "| " * n,
    "comment-openers": lambda n: "<!-- " * n,
    "gallery": lambda n: "<gallery>\n" + "File:a.png|cap\n" * n + "</gallery>",
    "sections-in-cells": lambda n: "{|\n" + "|\n== h ==\nx\n|-\n" * n + "|}",
}
