"""Minimal wiki database for parse/expand workloads: pages by normalised title, any bundled site language."""


class Page:
    def __init__(self, rawtext, title=None):
        self.rawtext = rawtext
        self.title = title
        self.names = [title]


class SynthDB:
    def __init__(self, pages=None, lang="en"):
        from mwlib.core.nshandling import NsHandler
        from mwlib.network.siteinfo import get_siteinfo
        self.siteinfo = get_siteinfo(lang)
        self.nshandler = NsHandler(self.siteinfo)
        self.pages = {}
        self.lookups = 0
        for k, v in (pages or {}).items():
            self.pages[self.nshandler.get_fqname(k, 10)] = v

    def normalize_and_get_page(self, title, defaultns=0):
        self.lookups += 1
        fq = self.nshandler.get_fqname(title, defaultns)
        raw = self.pages.get(fq)
        return None if raw is None else Page(raw, fq)

    def get_siteinfo(self):
        return self.siteinfo

    def get_url(self, title, _=None):
        return None

    def normalize_and_get_image_path(self, name):
        return None
