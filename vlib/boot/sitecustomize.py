"""Import overlay for processes started by the checks.

Serves the five native modules of mwlib from $VERIF_BUILD (built from the working tree
under test by vlib/build.py) instead of the stale git-ignored in-tree .so files, and makes
sure `mwlib`/`qs` resolve to $VERIF_REPO/src.
"""
import os
import sys

_bdir = os.environ.get("VERIF_BUILD")
if _bdir:
    import importlib.abc
    import importlib.util
    import sysconfig

    _EXT = sysconfig.get_config_var("EXT_SUFFIX")
    _NAMES = (
        "mwlib.parser.token._uscan",
        "mwlib.parser.templ.node",
        "mwlib.parser.templ.nodes",
        "mwlib.parser.templ.evaluate",
        "mwlib.parser.refine._core",
    )

    class _Overlay(importlib.abc.MetaPathFinder):
        def find_spec(self, name, path, target=None):
            if name in _NAMES:
                p = os.path.join(_bdir, name + _EXT)
                if os.path.exists(p):
                    return importlib.util.spec_from_file_location(name, p)
            return None

    sys.meta_path.insert(0, _Overlay())
