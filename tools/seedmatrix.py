#!/venv/bin/python
"""Apply every seeded change to /repo in turn, run the quick check of its property, record which
violation keys fire (seeded/RESULTS.json and each meta.json), undo the change.

Usage: tools/seedmatrix.py [--repo DIR] [ID-k ...]   (default: all under seeded/)
With --repo DIR the changes are applied to that checkout (a scratch worktree of /repo's HEAD) and the checks run
against it through VERIF_REPO, so /repo itself is never touched.  Without it: never run while something else uses
/repo's working tree.
"""
import json
import os
import re
import subprocess
import sys

HERE = os.path.dirname(os.path.dirname(os.path.abspath(__file__)))
SEEDED = os.path.join(HERE, "seeded")


def sh(cmd, **kw):
    return subprocess.run(cmd, shell=True, stdout=subprocess.PIPE, stderr=subprocess.STDOUT, text=True, **kw)


def main():
    args = sys.argv[1:]
    repo = "/repo"
    if args[:1] == ["--repo"]:
        repo = os.path.abspath(args[1])
        args = args[2:]
        os.environ["VERIF_REPO"] = repo
    names = args or sorted(d for d in os.listdir(SEEDED) if os.path.isdir(os.path.join(SEEDED, d)))
    status = sh("git -C %s status --porcelain --untracked-files=no" % repo).stdout.strip()
    if status:
        sys.exit("refusing: the checkout has tracked modifications:\n" + status)
    res_path = os.path.join(SEEDED, "RESULTS.json")
    results = json.load(open(res_path)) if os.path.exists(res_path) else {}
    for name in names:
        d = os.path.join(SEEDED, name)
        prop = name.split("-")[0]
        patch = os.path.join(d, "patch.diff")
        if sh("git -C %s apply --check %s" % (repo, patch)).returncode != 0:
            results[name] = {"property": prop, "applies": False}
            print(name, "PATCH DOES NOT APPLY")
            continue
        sh("git -C %s apply %s" % (repo, patch))
        try:
            r = sh("./check %s --tier quick" % prop, cwd=HERE)
        finally:
            sh("git -C %s checkout -- ." % repo)
        keys = sorted(set(re.findall(r"^VIOLATION property=\S+ replay=\S+\s+key=(\S+)", r.stdout, re.M)))
        inconc = re.findall(r"^INCONCLUSIVE .*", r.stdout, re.M)
        results[name] = {"property": prop, "applies": True, "exit": r.returncode, "caught": bool(keys),
                         "violation_keys": keys, "inconclusive": inconc[:3]}
        mp = os.path.join(d, "meta.json")
        meta = json.load(open(mp))
        meta["caught_by"] = {"check": "./check %s --tier quick" % prop, "violation_keys": keys, "exit": r.returncode}
        json.dump(meta, open(mp, "w"), indent=1)
        print(name, "CAUGHT" if keys else "MISSED", keys[:3])
        json.dump(results, open(res_path, "w"), indent=1, sort_keys=True)
    missed = [n for n, v in results.items() if not v.get("caught")]
    print("missed:", missed)


if __name__ == "__main__":
    main()
