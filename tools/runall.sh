#!/bin/sh
# runall.sh [tier] : run every check on the current /repo tree (regenerates evidence/), summary at the end
TIER="${1:-quick}"
cd "$(dirname "$0")/.." || exit 3
FAIL=0
for p in C01 C02 C03 C04 C05 C06 C07 C08 C09 C10 C11 C12 C13 C14 C15 C16 C17 C18 C19 C20; do
  ./check $p --tier "$TIER" > /tmp/runall_$p.out 2>&1
  rc=$?
  echo "$p exit=$rc $(grep -c '^KNOWN-FINDING' /tmp/runall_$p.out) known $(grep "^$p tier" /tmp/runall_$p.out | cut -c1-160)"
  [ $rc -ne 0 ] && { FAIL=1; grep -E "^(VIOLATION|INCONCLUSIVE)" /tmp/runall_$p.out | cut -c1-300; }
done
exit $FAIL
