#!/bin/sh
# validate_seed.sh <prop> <k> <srcdir>: confirm a sub-agent's seeded change in a scratch worktree of the
# current /repo HEAD: demo passes clean, patch applies, suite unchanged, demo fails with patch.
# On success copies it to /verif/seeded/<prop>-<k>/.
PROP="$1"; K="$2"; SRC="$3"
WT=/tmp/wt_validate_$$
/verif/tools/mkworktree.sh $WT >/dev/null || exit 3
cd $WT
res() { echo "$PROP-$K: $1"; cd /; git -C /repo worktree remove --force $WT; exit $2; }
NAT=0; grep -qE '\.(pyx|cc)$|\.pyx |\.cc ' "$SRC/patch.diff" && NAT=1
grep -qE '^\+\+\+ .*\.(pyx|cc)' "$SRC/patch.diff" && NAT=1
./py.sh "$SRC/demo.py" >/tmp/vs_clean_$$.out 2>&1; RC0=$?
[ $RC0 -eq 0 ] || res "demo does not pass on clean HEAD (rc=$RC0): $(tail -2 /tmp/vs_clean_$$.out)" 1
git apply --check "$SRC/patch.diff" 2>/dev/null && git apply "$SRC/patch.diff" || { git apply --3way "$SRC/patch.diff" >/dev/null 2>&1 && git reset -q || res "patch does not apply to current HEAD" 1; }
[ $NAT -eq 1 ] && ./rebuild_natives.sh >/dev/null 2>&1
T=$(./run_tests.sh 2>&1 | tail -1)
./py.sh "$SRC/demo.py" >/tmp/vs_patch_$$.out 2>&1; RC1=$?
echo "$T" | grep -q "70[0-9] passed" || res "suite changed with patch: $T" 1
echo "$T" | grep -q " failed" && res "suite has failures with patch: $T" 1
[ $RC1 -ne 0 ] || res "demo does not fail with patch" 1
D=/verif/seeded/$PROP-$K; mkdir -p $D
cp "$SRC/patch.diff" "$SRC/demo.py" $D/; [ -f "$SRC/notes.md" ] && cp "$SRC/notes.md" $D/
git diff > $D/patch.diff
cat > $D/meta.json <<EOM
{"property": "$PROP", "seed": $K, "suite_with_patch": "$(echo $T | tr -d '"')", "demo_clean_rc": $RC0, "demo_patched_rc": $RC1,
 "validated_against_repo_head": "$(git -C /repo rev-parse --short HEAD)", "touches_natives": $NAT,
 "ran": "tools/validate_seed.sh: demo on clean worktree, git apply, run_tests.sh, demo with patch"}
EOM
rm -f /tmp/vs_clean_$$.out /tmp/vs_patch_$$.out
res "OK ($T)" 0
