#!/venv/bin/python
"""Regenerate MANIFEST.json from vlib/props/*.py metadata (MANIFEST_* attributes)."""
import importlib, json, os, sys
HERE = os.path.dirname(os.path.dirname(os.path.abspath(__file__)))
sys.path.insert(0, HERE)
ALL = ["C%02d" % i for i in range(1, 21)]
checks, na = [], []
for pid in ALL:
    p = os.path.join(HERE, "vlib", "props", pid + ".py")
    if not os.path.exists(p):
        na.append({"property_id": pid, "reason": "check not built yet (runtime monitor designed in DESIGN.md section 4, %s)" % pid})
        continue
    m = importlib.import_module("vlib.props." + pid)
    checks.append({
        "property_id": pid,
        "quick_cmd": "./check %s --tier quick" % pid,
        "thorough_cmd": "./check %s --tier thorough" % pid,
        "evidence_file": "/verif/evidence/%s.json" % pid,
        "replay_cmd_template": "./check %s --replay {path}" % pid,
        "engine": "runtime-monitor-harness",
        "level_claimed": {"category": m.LEVEL, "text": m.LEVEL_TEXT, "design_ref": "DESIGN.md section 4, " + pid},
        "level_note": m.LEVEL_NOTE,
        "technique": m.TECHNIQUE,
    })
man = {
    "version": 1,
    "setup_cmd": "./setup",
    "hooks": {
        "guard": "MWLIB_VERIF",
        "enable": "no source hooks: monitors are installed from outside by wrapping module/class attributes at run time (children run with MWLIB_VERIF=1, natives rebuilt from the working tree into /verif/.build)",
        "baseline_off_cmd": "cd /repo && /venv/bin/python -m pytest -ra -q -p no:cacheprovider --timeout=900 --continue-on-collection-errors",
        "source_commits": [],
        "add_only": True,
    },
    "engines": [{"name": "runtime-monitor-harness", "path": "/verif/vlib", "serves_properties": [c["property_id"] for c in checks],
                 "kind_free_text": "runs the real code under generated/hostile workloads in sharded fresh interpreters; oracles are invariant monitors, reference-model monitors over recorded histories, syscall-trace checkers and ASan/UBSan builds of the native parts"}],
    "checks": checks,
    "not_applicable": na,
    "notes": "Exit 0 = held on everything observed; exit 1 + VIOLATION line = refuted; exit 2 + INCONCLUSIVE line = a deciding monitor observed too little (never folded into held). Known findings: /verif/known_findings.json.",
}
json.dump(man, open(os.path.join(HERE, "MANIFEST.json"), "w"), indent=1)
print("checks:", [c["property_id"] for c in checks], "n/a:", [n["property_id"] for n in na])
