#!/bin/sh
# mkworktree.sh <dir>: scratch git worktree of /repo with prebuilt natives + helper scripts
set -e
D="$1"
git -C /repo worktree add -q --detach "$D" HEAD
cd /repo
for f in $(find src -name "*.so"); do cp "/repo/$f" "$D/$f"; done
cat > "$D/run_tests.sh" <<'EOS'
#!/bin/sh
# runs the repository's test suite against THIS worktree (not /repo)
cd "$(dirname "$0")"
PYTHONPATH="$PWD/src" exec /venv/bin/python -m pytest -q -p no:cacheprovider -n 4 --timeout=900 --continue-on-collection-errors "$@"
EOS
cat > "$D/rebuild_natives.sh" <<'EOS'
#!/bin/sh
# rebuilds the C++/Cython extension modules in place after editing .pyx / _uscan.cc
cd "$(dirname "$0")/src"
set -e
INC=$(/venv/bin/python -c "import sysconfig;print(sysconfig.get_paths()['include'])")
EXT=$(/venv/bin/python -c "import sysconfig;print(sysconfig.get_config_var('EXT_SUFFIX'))")
# as the project's own build does: the Makefile cythonizes templ/*.pyx with plain "cython -3"
# (setup.py's directives only reach refine/_core.pyx, whose .c the Makefile does not pre-generate)
for p in mwlib/parser/templ/node mwlib/parser/templ/nodes mwlib/parser/templ/evaluate; do
  /venv/bin/cython -3 $p.pyx -o /tmp/$$.c
  gcc -O2 -shared -fPIC -w -I$INC /tmp/$$.c -o $p$EXT; rm -f /tmp/$$.c
done
p=mwlib/parser/refine/_core
/venv/bin/cython -3 -X boundscheck=False -X wraparound=False $p.pyx -o /tmp/$$.c
gcc -O2 -shared -fPIC -w -I$INC /tmp/$$.c -o $p$EXT; rm -f /tmp/$$.c
g++ -O2 -shared -fPIC -w -I$INC mwlib/parser/token/_uscan.cc -o mwlib/parser/token/_uscan$EXT
echo rebuilt
EOS
cat > "$D/py.sh" <<'EOS'
#!/bin/sh
# python interpreter that imports mwlib/qs from THIS worktree
PYTHONPATH="$(cd "$(dirname "$0")" && pwd)/src" exec /venv/bin/python "$@"
EOS
chmod +x "$D/run_tests.sh" "$D/rebuild_natives.sh" "$D/py.sh"
echo "$D ready"
