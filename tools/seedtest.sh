#!/bin/sh
# seedtest.sh <patch> <prop>...  : apply patch to /repo, run the quick checks, undo
P="$1"; shift
cd /repo || exit 3
if ! git apply --check "$P" 2>/dev/null; then
  if ! git apply --3way "$P" 2>/dev/null; then echo "PATCH DOES NOT APPLY: $P"; git reset -q; git checkout HEAD -- . ; exit 4; fi
  git reset -q
else
  git apply "$P"
fi
git diff --stat | tail -1
cd /verif
for prop in "$@"; do
  ./check "$prop" --tier ${TIER:-quick} 2>&1 | grep -E "^(VIOLATION|INCONCLUSIVE|KNOWN|C[0-9]+ tier)" | cut -c1-260
done
git -C /repo checkout -- .
git -C /repo status --short | grep -v evaluate.c
