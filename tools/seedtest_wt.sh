#!/bin/sh
# seedtest_wt.sh <patch> <prop>... : like seedtest.sh but in a scratch worktree (VERIF_REPO), /repo untouched
P="$(readlink -f "$1")"; shift
WT=${WT:-/tmp/wt_seedtest}
if [ ! -d $WT ]; then git -C /repo worktree add -q --detach $WT HEAD || exit 3; fi
git -C $WT checkout -q --detach $(git -C /repo rev-parse HEAD) 2>/dev/null
git -C $WT checkout -- . 
if ! git -C $WT apply --check "$P" 2>/dev/null; then echo "PATCH DOES NOT APPLY: $P"; exit 4; fi
git -C $WT apply "$P"
git -C $WT diff --stat | tail -1
cd /verif
for prop in "$@"; do
  VERIF_REPO=$WT ./check "$prop" --tier ${TIER:-quick} 2>&1 | grep -E "^(VIOLATION|INCONCLUSIVE|C[0-9]+ tier)" | cut -c1-260
done
git -C $WT checkout -- .
