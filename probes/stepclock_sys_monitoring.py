import sys, time, logging
logging.disable(logging.CRITICAL)
from mwlib.parser.refine.uparser import parse_string
mon = sys.monitoring
TOOL = 3
mon.use_tool_id(TOOL, "steps")
E = mon.events
count = [0]
def on_jump(code, off, dst):
    if "/repo/src/" not in code.co_filename: return mon.DISABLE
    count[0] += 1
def on_start(code, off):
    if "/repo/src/" not in code.co_filename: return mon.DISABLE
    count[0] += 1
mon.register_callback(TOOL, E.JUMP, on_jump)
mon.register_callback(TOOL, E.PY_START, on_start)
def run(src, on):
    if on: mon.set_events(TOOL, E.JUMP | E.PY_START)
    count[0]=0; t=time.process_time(); parse_string("T", src, None, lang="en"); dt=time.process_time()-t
    mon.set_events(TOOL, 0)
    return count[0], dt
base = "''a'' [[b|c]] <b>x</b> {|\n| y\n|}\n"
for n in (50, 100, 200, 400):
    s = base*n
    c, dt = run(s, True); c0, dt0 = run(s, False)
    print(n, len(s), "steps", c, "t_on %.3f t_off %.3f"%(dt, dt0))
