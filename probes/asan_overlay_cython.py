import sys, importlib.abc, importlib.machinery, importlib.util
MAP = {"mwlib.parser.templ.node":"node","mwlib.parser.templ.nodes":"nodes","mwlib.parser.templ.evaluate":"evaluate","mwlib.parser.refine._core":"_core"}
class F(importlib.abc.MetaPathFinder):
    def find_spec(self, name, path, target=None):
        if name in MAP:
            p = "/tmp/cy/asan/%s.cpython-312-x86_64-linux-gnu.so" % MAP[name]
            return importlib.util.spec_from_file_location(name, p)
sys.meta_path.insert(0, F())
import logging; logging.disable(logging.CRITICAL)
from mwlib.parser.expander import Expander, DictDB
import mwlib.parser.templ.evaluate as ev, mwlib.parser.refine._core as c
print(ev.__file__, c.__file__)
print(Expander("{{a|x}} {{#if:1|y|z}} {{#switch:2|1=a|2=b}}", "P", DictDB(a="[{{{1}}}]")).expandTemplates())
