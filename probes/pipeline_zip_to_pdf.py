import sys, os, time, logging, json
logging.disable(logging.CRITICAL)
from mwlib.network.fetch import FsOutput
from mwlib.network.siteinfo import get_siteinfo
from mwlib.core import metabook, wiki
from mwlib.apps.buildzip import zip_dir
from mwlib.utils import myjson
n = int(sys.argv[1])
fs = FsOutput("/tmp/p8/nw")
fs.write_siteinfo(get_siteinfo("en"))
mb = metabook.Collection(title="My Book")
pages={}
rev=100
for i in range(n):
    t=f"Article {i}"
    mb.append_article(t)
    pages[str(i)]={"title":t,"ns":0,"revisions":[{"revid":rev+i,"*":f"== Sec{i} ==\nalpha{i} beta{i} {{{{Tpl|gamma{i}}}}}\n* item{i}\n\n{{| class=\"wikitable\"\n! h{i}a !! h{i}b\n|-\n| c{i}a || c{i}b\n|-\n| d{i}a || d{i}b\n|}}\n"}]}
pages["t"]={"title":"Template:Tpl","ns":10,"revisions":[{"revid":99,"*":"tplword {{{1}}}"}]}
fs.write_pages({"pages":pages})
fs.dump_json(metabook=mb)
fs.nfo={"format":"nuwiki","base_url":"http://example.org/w/","script_extension":".php"}
fs.write_redirects({}); fs.write_licenses([])
fs.write_authors(); fs.write_html(); fs.imageinfo.close()
fs.close()
z = zip_dir("/tmp/p8/nw", "/tmp/p8/nw.zip")
env = wiki.make_wiki(z)
from mwlib.writers.rl.writer import writer as rlw
from mwlib.utils.status import Status
t0=time.time()
try:
    rlw(env, output="/tmp/p8/out.pdf", status_callback=Status())
    print("rl ok %.2fs"%(time.time()-t0))
except BaseException as e:
    import traceback; traceback.print_exc(); print("rl EXC", type(e).__name__, e)
from mwlib.utils.unorganized import pdf2txt
if os.path.exists("/tmp/p8/out.pdf"):
    txt = pdf2txt("/tmp/p8/out.pdf"); print(len(txt)); print(txt[:600])
