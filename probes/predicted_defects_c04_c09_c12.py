import logging; logging.disable(logging.CRITICAL)
from mwlib.parser.refine.uparser import parse_string
from mwlib.parser.dummydb import DummyDB
from mwlib.parser.expander import Expander, DictDB
from mwlib.core import nshandling
from mwlib.network import siteinfo
db = DummyDB()
def show(s, withdb=True):
    t = parse_string("T", s, db if withdb else None, lang="en")
    def w(n, d=0):
        print("  "*d + n.__class__.__name__, repr(getattr(n,'caption','')), getattr(n,'vlist',None) or '')
        for c in n.children: w(c, d+1)
    print("INPUT", repr(s)); w(t)
show("A <nowiki><includeonly>x</includeonly><noinclude>y</noinclude></nowiki> B")
show("A <pre><nowiki>q</nowiki> ''i''</pre> B")
show("A <syntaxhighlight>a</source>''b''</syntaxhighlight> B")
show("A <nowiki>{{PAGENAME}} [[x]] <!-- c --></nowiki> B")
nh = nshandling.NsHandler(siteinfo.get_siteinfo("en"))
for t in ["‎ foo", "foo ‏", "Template:‎ x", "talk : ‎‎ y"]:
    r = nh.splitname(t); r2 = nh.splitname(r[2])
    print(repr(t), r, r2, "IDEMPOTENT" if r==r2 else "NOT-IDEMPOTENT")
for e in ["floor 2.5 ^ 2", "ceil 1.5 ^ 2", "-2 ^ 2", "2 ^ 3 ^ 2", "not 0 + 1", "2 * 3 mod 4", "7 - 2 - 1", "1 = 1 and 0 or 1", "9e99999"]:
    print(e, "=>", Expander("{{#expr: %s}}"%e, "P", DictDB()).expandTemplates()[:60])
