import logging; logging.disable(logging.CRITICAL)
import json, gevent
from gevent import queue
from qs import jobs, qserve, rpcserver

class FakeFile:
    def __init__(self, inq, out): self.inq, self.out = inq, out
    def readline(self): return self.inq.get()
    def write(self, s): self.out.append(s)
    def flush(self): pass
    def close(self): pass
class FakeSock:
    def __init__(self): self.inq = queue.Queue(); self.out = []; self.closed=False
    def makefile(self, mode): return FakeFile(self.inq, self.out)
    def close(self): self.closed=True

db = qserve.db()
class Handler(rpcserver.RequestHandler, qserve.QPlugin):
    def __init__(self, **kw): super().__init__(**kw)
    workq = db.workq
srv = rpcserver.Server.__new__(rpcserver.Server)
srv.get_request_handler = Handler; srv.client_count = 0; srv.is_allowed = lambda x: True
def connect(i):
    s = FakeSock(); g = rpcserver.ClientGreenlet(srv.handle_client, s, ("10.0.0.%d"%i, 1000+i)); g.start(); return s, g
def send(s, name, **kw): s.inq.put(json.dumps((name, kw))+"\n")
def flush():
    for _ in range(20): gevent.sleep(0)
w1, g1 = connect(1); w2, g2 = connect(2); c, gc = connect(3)
flush()
send(w1, "qpull", channels=["c"]); flush()
print("waiters", len(db.workq._waiters))
send(c, "qadd", channel="c", jobid="a"); send(w2, "qadd", channel="c", jobid="b"); flush()
print("w1 out", [json.loads(x)["result"]["jobid"] for x in w1.out], "c out", c.out, "w2 out", w2.out)
print("queues", {k:[j.jobid for j in v] for k,v in db.workq.channel2q.items()}, "id2job", list(db.workq.id2job))
# disconnect w1 while holding job
w1.inq.put(""); flush()
print("after disconnect: dead", g1.dead, "queues", {k:[j.jobid for j in v] for k,v in db.workq.channel2q.items()})
