import os, sys, json
import mwlib.utils.status as st
p = sys.argv[1]
try: os.open("/tmp/__VERIF_MARK__", os.O_RDONLY)
except OSError: pass
s = st.Status(p); s.stdout=None
s(status="a", progress=1); s(status="b", progress=50)
