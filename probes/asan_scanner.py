import importlib.util, sys
spec = importlib.util.spec_from_file_location("mwlib.parser.token._uscan", "/tmp/san/_uscan.cpython-312-x86_64-linux-gnu.so")
m = importlib.util.module_from_spec(spec); spec.loader.exec_module(m)
sys.modules["mwlib.parser.token._uscan"] = m
import mwlib.parser.token
mwlib.parser.token._uscan = m
from mwlib.parser.token import utoken
print(utoken._mwscan.__file__)
print(utoken.scan("== a ==\n{|\n| x || y\n|}\n"))
print(m.scan("abc"))   # no sentinel!
