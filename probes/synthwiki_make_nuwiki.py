import os, sys, json, logging, random, shutil, urllib.parse
os.environ["MWLIB_FETCH_MAX_REQUESTS_PER_SECOND"] = "0"
logging.disable(logging.CRITICAL)
import gevent
from mwlib.network import sapi, fetch
from mwlib.network.siteinfo import get_siteinfo
from mwlib.apps import make_nuwiki as mn
from mwlib.core import metabook, nuwiki
from mwlib.utils.status import Status

SI = get_siteinfo("en")
PAGES = {  # title -> list of revisions (revid, text, user)
  "Alpha": [(11, "alpha old", "Ann"), (12, "alpha new {{Tpl|x}} [[File:Pic.png|thumb|cap]]", "Bob")],
  "Beta": [(21, "#REDIRECT [[Alpha]]", "Ann")],
  "Template:Tpl": [(31, "tpl({{{1}}}) {{Inner}}", "Cat")],
  "Template:Inner": [(41, "inner [[File:Deep.png]]", "SomeBot")],
  "File:Pic.png": [(51, "pic description {{Information}}", "Dan")],
  "File:Deep.png": [(61, "deep description", "Eve")],
}
LOG = []
class SynthApi(sapi.MwApi):
    def _fetch(self, url, method="GET", data=None, **kw):
        if method == "POST":
            q = dict(urllib.parse.parse_qsl(data.decode(), keep_blank_values=True))
        else:
            q = dict(urllib.parse.parse_qsl(urllib.parse.urlsplit(url).query, keep_blank_values=True))
        LOG.append(q)
        gevent.sleep(random.random()*0.002)
        return json.dumps(handle(q)).encode()

def expand(text, depth=0):
    import re
    def rep(m):
        name = m.group(1).split("|")[0].strip().lstrip(":")
        args = m.group(1).split("|")[1:]
        t = name if name in PAGES else "Template:"+name
        if t not in PAGES or depth > 5: return "[[:%s]]" % t
        body = PAGES[t][-1][1]
        for i, a in enumerate(args): body = body.replace("{{{%d}}}" % (i+1), a)
        return expand(body, depth+1)
    return re.sub(r"\{\{([^{}]*)\}\}", rep, text)

def images_of(title):
    import re
    txt = expand(PAGES[title][-1][1])
    return sorted({"File:"+m for m in re.findall(r"\[\[File:([^|\]]+)", txt)})

def handle(q):
    a = q["action"]
    if a == "query" and q.get("meta") == "siteinfo":
        return {"query": {k: SI[k] for k in q["siprop"].split("|") if k in SI}}
    if a == "expandtemplates":
        return {"expandtemplates": {"wikitext": expand(q["text"])}}
    if a == "parse":
        return {"parse": {"title": q.get("page", ""), "text": {"*": "<p>html</p>"}}}
    if a == "query":
        pages = {}; redirects = []
        titles = q["titles"].split("|") if q.get("titles") else []
        revids = [int(x) for x in q["revids"].split("|")] if q.get("revids") else []
        props = q.get("prop", "").split("|")
        def page_entry(t):
            pid = str(abs(hash(t)) % 100000)
            if t not in PAGES: return "-" + pid, {"title": t, "ns": 0, "missing": ""}
            ns = 10 if t.startswith("Template:") else 6 if t.startswith("File:") else 0
            return pid, {"title": t, "ns": ns, "pageid": int(pid)}
        sel = []
        for t in titles:
            if q.get("redirects") and t in PAGES and PAGES[t][-1][1].startswith("#REDIRECT"):
                tgt = PAGES[t][-1][1].split("[[")[1].split("]]")[0]; redirects.append({"from": t, "to": tgt}); t = tgt
            sel.append((t, None))
        for r in revids:
            for t, revs in PAGES.items():
                for rv in revs:
                    if rv[0] == r: sel.append((t, rv))
        for t, rv in sel:
            pid, e = page_entry(t); e = pages.setdefault(pid, e)
            if t not in PAGES: continue
            revs = [rv] if rv else [PAGES[t][-1]]
            if "revisions" in props:
                rvprop = q.get("rvprop", "ids").split("|")
                e["revisions"] = [dict({"revid": r[0]}, **({"*": r[1]} if "content" in rvprop else {}), **({"user": r[2]} if "user" in rvprop else {})) for r in revs]
            if "images" in props: e["images"] = [{"ns": 6, "title": i} for i in images_of(t)]
            if "templates" in props: e["templates"] = []
            if "imageinfo" in props and t.startswith("File:"):
                e["imageinfo"] = [{"url": "http://wiki.test/images/"+t[5:], "thumburl": "http://wiki.test/images/thumb/"+t[5:], "descriptionurl": "http://wiki.test/wiki/"+t, "user": "U", "size": 10, "sha1": "x"}]
            if "contributors" in props:
                e["contributors"] = [{"userid": 1, "name": r[2]} for r in PAGES[t]]; e["anoncontributors"] = 2
            if "categories" in props: pass
        res = {"pages": pages}
        if redirects: res["redirects"] = redirects
        return {"query": res}
    raise SystemExit("unhandled %r" % q)

class Resp:
    def __init__(self, data): self.data = data
    def raise_for_status(self): pass
    def iter_bytes(self, chunk_size=1): yield self.data
    def __enter__(self): return self
    def __exit__(self, *a): return False
class DlClient:
    def stream(self, method, url): return Resp(b"PNGDATA:" + url.encode())
sapi.MwApi = SynthApi
fetch._get_download_client = lambda url: DlClient()

mb = metabook.Collection(title="B")
mb.append_article("Alpha"); mb.append_article("Beta"); mb.append_article("Alpha", revision=11); mb.append_article("Nope")
mb.wikis.append(metabook.WikiConf(baseurl="http://wiki.test/w/"))
shutil.rmtree("/tmp/p11/out", ignore_errors=True)
st = Status(); st.stdout = None
mn.make_nuwiki("/tmp/p11/out", mb, {"script_extension": ".php", "imagesize": 800}, None, st)
print("requests:", len(LOG))
from collections import Counter
print(Counter((q["action"], q.get("prop", q.get("meta",""))) for q in LOG))
w = nuwiki.Adapt("/tmp/p11/out")
for t, r in [("Alpha", None), ("Beta", None), ("Alpha", 11), ("Nope", None)]:
    p = w.nuwiki.get_page(t, r) if r else w.normalize_and_get_page(t, 0)
    print(t, r, "->", None if p is None else (p.title, getattr(p, "revid", None), p.rawtext[:70]))
print("redirects", w.nuwiki.redirects)
print("images", sorted(os.listdir("/tmp/p11/out/images")))
print("imageinfo", [k for k, v in w.nuwiki.imageinfo.items()])
print("authors", w.nuwiki.authors.items() if w.nuwiki.authors else None)
print("File:Pic.png page:", w.get_page("File:Pic.png") and w.get_page("File:Pic.png").rawtext)
print("disk", w.get_disk_path("Image:pic.png"))
