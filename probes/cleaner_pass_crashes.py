import logging, copy; logging.disable(logging.CRITICAL)
from mwlib.parser.refine.uparser import parse_string
from mwlib.parser.dummydb import DummyDB
from mwlib.parser import advtree
from mwlib.parser.treecleaner import TreeCleaner
db = DummyDB()
def run(s):
    t = parse_string("T", s, db, lang="en"); advtree.build_advanced_tree(t)
    tc = TreeCleaner(t, save_reports=True)
    errs = []
    for name in tc.cleaner_methods:
        try: getattr(tc, name)(t)
        except Exception as e: errs.append((name, type(e).__name__, str(e)[:80]))
    return errs
cases = {
 "scroll-div-in-table": '{|\n| <div style="overflow:auto; height:200px">x</div>\n|}\n',
 "scroll-div": '<div style="overflow:auto; height:200px">x y</div>\n',
 "region_list": '<div id="region_list">\n{|\n| a || b\n|}\n</div>\n',
 "para-after-section-sibling": '== A ==\nx\n<div>\n== B ==\ny\n</div>\n<p>z</p>\n',
 "fixpara2": '<div>\n== B ==\ny\n</div>\nfoo\n\nbar\n',
}
for k, s in cases.items(): print(k, run(s))
for k, s in {"h2-tag": "<h2>head</h2>\n\npara one\n\npara two\n", "h2-tag-p": "<h2>head</h2><p>para</p>"}.items(): print(k, run(s))
