import logging; logging.disable(logging.CRITICAL)
import json, gevent, time
from gevent import queue
from qs import jobs, qserve, rpcserver
class FakeFile:
    def __init__(self, inq, out): self.inq, self.out = inq, out
    def readline(self): return self.inq.get()
    def write(self, s): self.out.append(s)
    def flush(self): pass
    def close(self): pass
class FakeSock:
    def __init__(self): self.inq = queue.Queue(); self.out = []
    def makefile(self, mode): return FakeFile(self.inq, self.out)
    def close(self): pass
def history():
    db = qserve.db()
    class Handler(rpcserver.RequestHandler, qserve.QPlugin):
        def __init__(self, **kw): super().__init__(**kw)
        workq = db.workq
    srv = rpcserver.Server.__new__(rpcserver.Server)
    srv.get_request_handler = Handler; srv.client_count = 0; srv.is_allowed = lambda x: True
    conns = []
    for i in range(4):
        s = FakeSock(); g = rpcserver.ClientGreenlet(srv.handle_client, s, ("h", i)); g.start(); conns.append((s, g))
    def send(i, name, **kw): conns[i][0].inq.put(json.dumps((name, kw))+"\n")
    def flush():
        for _ in range(6): gevent.sleep(0)
    flush()
    send(0, "qpull", channels=["c"]); flush()
    send(3, "qadd", channel="c", jobid="a"); send(3, "qadd", channel="d", jobid="b"); flush()
    send(1, "qpull", channels=[]); flush()
    send(0, "qfinish", jobid="a"); flush()
    for s, g in conns: s.inq.put("")
    flush()
t=time.time(); n=2000
for _ in range(n): history()
dt=time.time()-t; print("%.2f ms per 8-op history" % (dt/n*1000))
